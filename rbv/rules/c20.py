"""C20 - parser combinators honour their back-tracking and error contract."""
import json
import os
import re

from .. import mir, tagflow as tf, typestate as tsm
from ..core import CheckError, VERIF
from . import common

LEVEL = "other"
EXPLANATION = (
    "Inductive contract of rusty_pc::Parser::parse, discharged per implementing body by a typestate "
    "walk over all its paths (loops unrolled): (S) a returned error that is not proved fatal leaves "
    "the input position where it was at entry; (F) a child's error that is not proved soft is never "
    "turned into success or into a soft error; (S') a possibly-soft child error is only replaced by a "
    "fatal one in the combinators documented to do so; (M) set_position is only applied to a "
    "position read in the same invocation; (B) a successful parse does not rewind (peek excepted); "
    "(R) for the combinators documented to restore the index before each retry (the boxed choice "
    "OrParser): after a child returned an error no other child is parsed before set_position "
    "restores a recorded position - the next alternative does not rely on the failed one having "
    "cleaned up.  "
    "Children are assumed to satisfy the same contract (induction over parser construction); the "
    "error type's own laws (default is soft, to_fatal is fatal, is_soft = !is_fatal) are checked on "
    "every variant of the workspace's ParserErrorTrait implementor.  (L) the combinators documented to undo by themselves (sequence-with-undo, optional surround) return the possibly soft error of a child that was not the first one parsed only after set_position(entry): children such as and_then / flatten are documented not to rewind, so the induction hypothesis does not cover them."
    " (T) in a delimited list a delimiter that follows no element is accepted only when the list's collector supplies a value for the missing element; otherwise the parser returns the error it was given for that case, without going round the loop again."
    " (P) no combinator puts the input position back and then returns a child's error that is not known to be soft."
    " (X) a combinator that sets a child's context inside its own parse does so before every parse of that child, on every path from the entry and from the previous parse of that child: no element is parsed with a stale context.")
NOT_DECIDED = [
    "choice returns the *first* successful alternative; repetition returns the *maximal* run; "
    "delimited lists reject exactly a trailing delimiter (functional behaviour of each combinator)",
    "paths beyond the loop unrolling bound (counted as `cut` in evidence)",
]
ASSUMPTIONS = ["user-supplied closures (predicates, mappers, combiners) do not touch the input",
               "documented exceptions are those of tables/pc_contract.json (doc quotes)"]

PARSER_TRAIT = "rusty_pc::parser::Parser"
MAPDEC = "rusty_pc::map_decorator::MapDecorator"
PET = "rusty_pc::parser::ParserErrorTrait"


def contract():
    with open(os.path.join(VERIF, "tables", "pc_contract.json")) as fh:
        return json.load(fh)


def type_name(self_ty):
    return re.sub(r"<.*", "", self_ty).split("::")[-1]


def self_object(prog, eng, impl, ts, table):
    adt_id = impl.get("self_adt")
    adt = prog.adts.get(adt_id) if adt_id else None
    if adt is None or not adt["variants"]:
        return tf.Ref(tf.TOP)
    var = adt["variants"][0]
    fields = []
    tname = type_name(impl["self_ty"])
    for f in var["fields"]:
        key = "%s.%s" % (tname, f["name"])
        if key in table["error_fields"]:
            fields.append(eng.new_error(ts, table["error_fields"][key]["softness"], ("field", f["name"])))
        else:
            fields.append(tf.TOP)
    return tf.Ref(tf.Tag(adt_id, var["name"], fields))


def origin_root(ts, i):
    seen = set()
    while i not in seen:
        seen.add(i)
        o = ts["origin"].get(i)
        if o and o[0] == "derived":
            i = o[1]
        else:
            break
    return i


def analyse_unit(prog, fn, impl, table, is_fatal_fn, decorator_impl=None):
    eng = tsm.TSEngine(prog, decorator_impl=decorator_impl)
    ts = tsm.new_state()
    owner = decorator_impl or impl
    selfv = self_object(prog, eng, owner, ts, table)
    results = eng.run_ts(fn, fn.body, {1: selfv, 2: tf.Ref(tf.TOP)}, ts)
    return eng, results


def check_unit(ctx, rule, unit_name, fn, results, eng, table, is_fatal_fn):
    loc = fn.loc
    may_upgrade = unit_name in table["may_upgrade_soft_child_error"]
    ext_ok = unit_name in table["external_result_without_rewind"]
    rewind_ok = unit_name in table["rewinds_on_success"]
    viol = {"S": [], "F": [], "S'": [], "M": [], "B": [], "R": [], "L": [], "D": [], "P": []}
    unit_parses_children = any(ts.get("parsed", 0) > 0 for _v, ts in results if not ts.get("cut"))
    l_paths = 0
    n_cut = 0
    n_paths = 0
    for v, ts in results:
        if ts.get("cut"):
            n_cut += 1
            continue
        n_paths += 1
        v = tf.deref(v)
        kind = "unknown"
        e = None
        if v[0] == "external":
            kind = "external"
        elif v[0] == "tag" and v[2] == "Ok":
            kind = "ok"
        elif v[0] == "tag" and v[2] == "Err":
            kind = "err"
            e = tf.deref(v[3][0]) if v[3] else tf.TOP
            if e[0] == "external":
                kind = "external"
        if ts.get("r_viol") and unit_name in table.get("restores_before_retry", {}):
            viol["R"].append("parses another child after a child error without restoring the input position first "
                             "(line %s): the next alternative starts wherever the failed one stopped" % ts["r_viol"][0])
        if ts["m_viol"]:
            viol["M"].append("set_position with a value not read in this invocation (line %s)" % ts["m_viol"][0])
        soft = eng.softness_of(ts, e, is_fatal_fn) if e is not None else None
        children = ts["children"]
        # D: a combinator that has a child does not answer in its place: an error of its own making
        # (the default soft error) is returned only after a child was asked
        if kind == "err" and unit_parses_children and ts.get("parsed", 0) == 0 and e[0] == "errobj" \
                and ts["origin"].get(e[1], ("",))[0] == "default":
            viol["D"].append("returns a soft error of its own without having run any child parser: the result is not "
                             "the child's (a child that succeeds without input, or fails fatally, is overruled)")
        # S
        passthrough = (unit_name in table.get("inner_result_passthrough", {}) and kind == "err"
                       and e[0] == "errobj" and ts["origin"].get(e[1], ("",))[0] == "child")
        if kind == "err" and soft != tsm.FATAL and ts["pos"] != tsm.ENTRY and not passthrough:
            viol["S"].append("returns an error not proved fatal (%s) with the input position moved" % _describe(ts, e, soft))
        if kind == "external" and ts["pos"] != tsm.ENTRY and not ext_ok:
            viol["S"].append("returns the result of user code after consuming input without restoring the position")
        if kind == "unknown" and ts["pos"] != tsm.ENTRY and not ext_ok:
            viol["S"].append("returns a value the analysis cannot classify after consuming input")
        # P: a fatal error is reported where it was found.  The reader's position when a fatal error reaches
        # the top is the position of the diagnostic: a combinator that moves the input back and then returns an
        # error that is not known to be soft makes a syntax error point at the start of the construct
        if kind == "err" and soft != tsm.SOFT and ts.get("rewound_after_child_error") and ts["pos"] == tsm.ENTRY \
                and e[0] == "errobj" and ts["origin"].get(e[1], ("",))[0] == "child":
            viol["P"].append("puts the input position back (line %s) and then returns a child's error that is %s: a fatal "
                             "error is reported at the start of the construct instead of where it was found"
                             % (ts["rewound_after_child_error"], "fatal" if soft == tsm.FATAL else "not known to be soft"))
        # L: the soft failure of a later child is returned only after the position was put back
        if kind == "err" and soft != tsm.FATAL and children and e[0] == "errobj" and origin_root(ts, e[1]) == children[-1] \
                and ts.get("parsed", 0) > 1:
            l_paths += 1
            if ts.get("later_child_failed") is not None:
                viol["L"].append("returns the possibly soft error of a child that was not the first one parsed (line %s) "
                                 "without set_position(entry) in between: when that child is one that does not rewind by "
                                 "itself (and_then, flatten) the input stays moved" % ts["later_child_failed"])
        # F
        for c in children:
            cs = ts["soft"].get(c, tsm.UNKNOWN)
            if cs == tsm.SOFT:
                continue
            if kind == "err":
                same = e[0] == "errobj" and origin_root(ts, e[1]) == c
                if same or soft == tsm.FATAL:
                    continue
                if soft == tsm.UNKNOWN and e[0] == "errobj" and ts["origin"].get(e[1], ("",))[0] == "field":
                    # replaced by a configured error of unknown softness: only for possibly-fatal
                    # child errors this would be a downgrade
                    if cs == tsm.UNKNOWN:
                        continue
                viol["F"].append("a child error not proved soft is turned into %s" % _describe(ts, e, soft))
            elif kind == "ok":
                viol["F"].append("a child error not proved soft is swallowed (returns Ok)")
            elif kind == "external" and not ext_ok:
                viol["F"].append("a child error not proved soft is replaced by the result of user code")
        # S'
        if kind == "err" and soft != tsm.SOFT and children:
            last = children[-1]
            ls = ts["soft"].get(last, tsm.UNKNOWN)
            is_same = e[0] == "errobj" and e[1] == last
            if not is_same and ls in (tsm.SOFT, tsm.UNKNOWN) and not may_upgrade:
                # only an upgrade if the child error could have been soft and what is returned is not it
                if not (ls == tsm.UNKNOWN and e[0] == "errobj" and origin_root(ts, e[1]) == last and False):
                    viol["S'"].append("a child error that may be soft (%s) is replaced by %s" % (ls, _describe(ts, e, soft)))
        # B
        if kind == "ok" and ts["rewound"] and ts["pos"] == tsm.ENTRY and not rewind_ok:
            viol["B"].append("returns Ok after rewinding the input")
    if unit_name in table.get("restores_after_later_child", {}) and not l_paths:
        raise CheckError("%s: no path returns the soft error of a later child (clause L has nothing to check)" % unit_name)
    for clause, msgs in viol.items():
        if clause == "R" and unit_name not in table.get("restores_before_retry", {}):
            continue
        if clause == "L" and unit_name not in table.get("restores_after_later_child", {}):
            continue
        key = "%s:%s:%s" % (rule, unit_name, clause)
        if msgs:
            ctx.violation(rule, key, loc, "%s::parse - %s (%d of %d paths)" % (unit_name, msgs[0], len(msgs), n_paths),
                          {"function": fn.path})
        else:
            ctx.ok(rule, key, loc, "%d paths" % n_paths)
    return n_paths, n_cut


def _describe(ts, e, soft):
    if e is None:
        return "?"
    if e[0] == "errobj":
        return "%s error from %s" % (soft, ts["origin"].get(e[1]))
    if e[0] == "tag":
        return "%s error %s" % (soft, e[2])
    return "an unknown error"


def r_error_laws(ctx, rule="C20.E"):
    """Laws of ParserErrorTrait implementors: default is soft; is_soft = !is_fatal; to_fatal is fatal."""
    prog = ctx.prog
    eng = tf.Engine(prog)
    impls = prog.impls_of_trait(PET)
    if not impls:
        raise CheckError("no ParserErrorTrait implementor in the workspace")
    tr = prog.traits[PET]
    is_fatal_fn = None
    for impl in impls:
        adt = impl.get("self_adt")
        if adt not in prog.adts:
            raise CheckError("error type %s not in facts" % impl["self_ty"])
        m = {n: prog.fns.get(prog.effective_method(impl, tr, n)) for n in ("is_fatal", "is_soft", "to_fatal")}
        if not all(m.values()):
            raise CheckError("ParserErrorTrait methods of %s not found" % impl["self_ty"])
        is_fatal_fn = m["is_fatal"]
        tname = type_name(impl["self_ty"])
        for v in prog.variants(adt):
            val = eng.fresh_tag(adt, v)
            f = {tf.shape(x) for x in eng.summary(m["is_fatal"], (tf.Ref(val),))}
            s = {tf.shape(x) for x in eng.summary(m["is_soft"], (tf.Ref(val),))}
            ctx.decide(len(f) == 1 and len(s) == 1 and f != s, rule, "%s:%s::%s:soft-xor-fatal" % (rule, tname, v),
                       m["is_fatal"].loc, "is_fatal=%s is_soft=%s" % (f, s),
                       "%s::%s: is_fatal=%s, is_soft=%s (must be complementary)" % (tname, v, f, s))
            tfv = eng.summary(m["to_fatal"], (val,))
            allf = True
            for x in tfv:
                r = {tf.shape(y) for y in eng.summary(m["is_fatal"], (tf.Ref(tf.deref(x)),))}
                if r != {"1"}:
                    allf = False
            ctx.decide(allf, rule, "%s:%s::%s:to_fatal-is-fatal" % (rule, tname, v), m["to_fatal"].loc,
                       "to_fatal yields a fatal error", "%s::%s.to_fatal() is not fatal" % (tname, v))
        # Default
        dimpl = [i for i in prog.impls.values() if i.get("trait") == "core::default::Default" and i.get("self_adt") == adt]
        ok = False
        if dimpl:
            did = [it["id"] for it in dimpl[0]["items"] if it["name"] == "default"]
            if did and did[0] in prog.fns:
                for x in eng.summary(prog.fns[did[0]], ()):
                    r = {tf.shape(y) for y in eng.summary(m["is_fatal"], (tf.Ref(tf.deref(x)),))}
                    ok = r == {"0"}
        ctx.decide(ok, rule, "%s:%s:default-is-soft" % (rule, tname), m["is_fatal"].loc,
                   "Default::default() is a soft error",
                   "%s::default() is not proved soft: default_parse_error() would produce a fatal error" % tname)
    ctx.require(rule, 5)
    return is_fatal_fn


def r_contract(ctx, is_fatal_fn, rule="C20.C"):
    prog = ctx.prog
    table = contract()
    units = [f for f in prog.fns.values() if f.trait_item == PARSER_TRAIT + "::parse"]
    if len(units) < 30:
        raise CheckError("only %d implementations of Parser::parse found" % len(units))
    total_paths = 0
    total_cut = 0
    names = []
    for fn in sorted(units, key=lambda f: f.id):
        impl = fn.impl
        tname = type_name(impl["self_ty"])
        if tname == "D":
            # blanket impl for MapDecorator implementors: once per implementor
            for dimpl in sorted(prog.impls_of_trait(MAPDEC), key=lambda i: i["id"]):
                dname = type_name(dimpl["self_ty"])
                eng, results = analyse_unit(prog, fn, impl, table, is_fatal_fn, decorator_impl=dimpl)
                p, c = check_unit(ctx, rule, dname, fn, results, eng, table, is_fatal_fn)
                total_paths += p
                total_cut += c
                names.append(dname)
            continue
        eng, results = analyse_unit(prog, fn, impl, table, is_fatal_fn)
        if fn.crate == "rusty_pc" and tname == "PeekParser" and "top_level" in fn.id:
            tname = "PeekPrimitive"
        p, c = check_unit(ctx, rule, tname, fn, results, eng, table, is_fatal_fn)
        total_paths += p
        total_cut += c
        names.append(tname)
    ctx.analysed_units(rule, units=names, paths=total_paths, paths_cut_by_loop_bound=total_cut)
    # constructor-site rule: fields tabled FATAL are asserted fatal where they are set
    for key, info in table["error_fields"].items():
        if info["softness"] != "FATAL":
            continue
        tname, field = key.split(".")
        news = [f for f in prog.fns.values() if f.name == "new" and f.impl and type_name(f.impl["self_ty"]) == tname
                and f.crate == "rusty_pc"]
        if len(news) != 1:
            raise CheckError("constructor of %s not found" % tname)
        new = news[0]
        asserted = _asserts_fatal(prog, new)
        callers = [prog.fns[c] for c in prog.callers().get(new.id, ()) if c in prog.fns]
        if not asserted:
            asserted = bool(callers) and all(_asserts_fatal(prog, c) for c in callers)
        ctx.decide(asserted, rule, "%s:%s:asserted-fatal" % (rule, key), new.loc,
                   "is_fatal() is asserted where %s is set" % key,
                   "%s is treated as fatal by the contract but no assert(is_fatal) guards its construction" % key)
    ctx.require(rule, 40 * 5)


def _asserts_fatal(prog, fn):
    calls_is_fatal = False
    panics = False
    for b, t in fn.body.calls():
        if (t.get("cpath") or "").endswith("ParserErrorTrait::is_fatal"):
            calls_is_fatal = True
        if mir.is_panic_call(t):
            panics = True
    return calls_is_fatal and panics


def r_missing_element(ctx, rule="C20.T"):
    """`Delimited lists reject a trailing delimiter fatally`: a delimiter is accepted only after an element.
    When the element before a delimiter is missing, the list asks its collector for the value of a missing
    element (lists that allow gaps supply one); when the collector has none, the parser must return the
    error it was given for that case - on every path from the `None` answer to the function's exit, without
    going round the loop again.  Otherwise `a,,b` and `,a` are lists."""
    prog = ctx.prog
    n = 0
    for f in sorted(prog.fns.values(), key=lambda f: f.id):
        if f.crate != "rusty_pc" or f.body is None or f.name != "parse" or f.kind == "closure":
            continue
        body = f.body
        asks = [(b, t) for b, t in body.calls() if mir.callee_path(t).split("::")[-1] == "map_missing_element"]
        delimited = any("delimiter" in str(e.get("n", "")) for blk in body.blocks for st in blk["s"]
                        for e in (st.get("p", [0, []])[1] if st["k"] == "assign" else []) if isinstance(e, dict)) or \
            "Delimited" in ((f.impl or {}).get("self_ty") or "")
        if not asks:
            if delimited:
                n += 1
                ctx.violation(rule, "%s:%s:asks-the-collector" % (rule, c20_unit(f)), f.loc,
                              "%s no longer asks the element collector what a missing element is worth: a delimiter "
                              "that follows no element is accepted or rejected for every kind of list alike" % c20_unit(f))
            continue
        pv = mir.Prov(body)
        for cb, ct in asks:
            # the switch on the answer
            sws = []
            for b in range(body.nblocks):
                t = body.term(b)
                if t["k"] != "switch" or body.is_cleanup(b):
                    continue
                p_ = mir.op_place(t["o"])
                if p_ is None:
                    continue
                o = pv.of_place(p_)
                if o[0] == "discr" and mir.strip_refs(o[1])[0] == "call" and mir.strip_refs(o[1])[3] == cb:
                    sws.append((b, t))
            n += 1
            unit = c20_unit(f)
            if not sws:
                ctx.violation(rule, "%s:%s:none-is-fatal" % (rule, unit), "%s:%s" % (f.file, ct.get("ln")),
                              "the answer of map_missing_element is not examined")
                continue
            b, t = sws[0]
            none_t = [tgt for val, tgt in t["ts"] if val == 0]
            tgt = none_t[0] if none_t else t["else"]
            reach = body.reachable(tgt)
            # going round again: the element parser is called again
            loops = cb in reach
            returns_err = False
            for x in reach:
                if body.is_cleanup(x):
                    continue
                for st in body.blocks[x]["s"]:
                    r = st.get("r", {})
                    if st["k"] == "assign" and r.get("k") == "agg" and r.get("a") == "adt" and r["variant"] == "Err":
                        oo = pv.of_operand(r["ops"][0]) if r["ops"] else None
                        if oo is not None and mir.origin_mentions(oo, lambda z: z[0] == "field" and "error" in str(z[2])):
                            returns_err = True
            ok = returns_err and not loops
            ctx.decide(ok, rule, "%s:%s:none-is-fatal" % (rule, unit), "%s:%s" % (f.file, ct.get("ln")),
                       "a collector without a value for a missing element makes the list fail with the error it was given",
                       "%s: when the collector has no value for a missing element (map_missing_element() is None) the parser "
                       "%s: a delimiter that follows no element is skipped, `a,,b` and `,a` parse as lists although the "
                       "list was built not to allow missing elements (DIM x, , y; Add(1, , 2))"
                       % (unit, "goes round the loop again" if loops else "does not return the error given for that case"))
    ctx.analysed_units(rule, lists=n)
    ctx.require(rule, 1)


def c20_unit(f):
    ty = ((f.impl or {}).get("self_ty") or f.path).split("<")[0].split("::")[-1]
    return ty


def r_context_is_current(ctx, rule="C20.X"):
    """A combinator that hands a context to a child (`set_context`) inside its own `parse` does so for a reason: the
    child's decision depends on what was parsed before it (the element in front of it, the left side).  In every such
    `parse` body each call of that child's `parse` is preceded - on every path from the entry and from the previous call
    of that child's `parse` - by a `set_context` on that child: no element is parsed with the context of an element
    before the previous one (or with the default context once something has been parsed)."""
    prog = ctx.prog
    n = 0
    for f in sorted(prog.fns.values(), key=lambda f: f.id):
        if f.crate != "rusty_pc" or f.body is None or f.name != "parse" or f.kind == "closure":
            continue
        body = f.body
        pv = mir.Prov(body)
        setters, parses = {}, {}
        for b, t in body.calls():
            nm = mir.callee_path(t).split("::")[-1]
            if nm not in ("set_context", "parse"):
                # a private method of the same combinator that is handed self: what it does to the children's contexts
                g = prog.fns.get(t.get("res") or mir.callee_of(t))
                if g is not None and g.crate == "rusty_pc" and g.id != f.id and g.kind != "closure" and t["args"] \
                        and mir.strip_refs(pv.of_operand(t["args"][0])) == ("param", 0) and g.impl is not None and f.impl is not None \
                        and g.impl.get("self_adt") == f.impl.get("self_adt"):
                    gpv = mir.Prov(g.body)
                    gs, gp = {}, {}
                    for gb, gt in g.body.calls():
                        gn = mir.callee_path(gt).split("::")[-1]
                        if gn in ("set_context", "parse"):
                            gf = common.receiver_field(gpv, gt)
                            if gf is not None:
                                (gs if gn == "set_context" else gp).setdefault(gf, set()).add(gb)
                    exits = [e for e in g.body.exits() if not g.body.is_cleanup(e)]
                    for gf, blocks in gs.items():
                        if gf not in gp and all(g.body.every_path_passes(0, {e}, blocks) for e in exits):
                            setters.setdefault(gf, set()).add(b)
                    for gf in gp:
                        parses.setdefault(gf, set()).add(b)
                continue
            fld = common.receiver_field(pv, t)
            if fld is None:
                continue
            (setters if nm == "set_context" else parses).setdefault(fld, set()).add(b)
        for fld in sorted(set(setters) & set(parses)):
            n += 1
            # forward may-analysis: `stale` = a path reaches here on which the child's parse ran (or nothing ran yet)
            # after the last set_context
            stale_in = {0: True}
            work = [0]
            bad = []
            out = {}
            while work:
                b = work.pop()
                st = stale_in.get(b, False)
                if b in parses[fld]:
                    if st and b not in bad:
                        bad.append(b)
                    o = True
                elif b in setters[fld]:
                    o = False
                else:
                    o = st
                if out.get(b) == o and b in out:
                    continue
                out[b] = o
                for x in body.succ(b):
                    if body.is_cleanup(x):
                        continue
                    new = stale_in.get(x, False) or o
                    if x not in stale_in or new != stale_in[x] or x not in out:
                        stale_in[x] = new
                        work.append(x)
            lines = sorted({body.blocks[b]["t"].get("ln") for b in bad})
            ctx.decide(not bad, rule, "%s:%s:%s" % (rule, c20_unit(f), fld), f.loc,
                       "every %s.parse follows a %s.set_context" % (fld, fld),
                       "%s: `%s.parse` (line %s) can be reached without a `%s.set_context` since the entry or since the previous "
                       "`%s.parse`: an element is parsed with a context that is not that of the element in front of it"
                       % (c20_unit(f), fld, lines, fld, fld))
    ctx.analysed_units(rule, context_passing_units=n)
    ctx.require(rule, 2)


def run(ctx):
    common.install(ctx)
    is_fatal_fn = r_error_laws(ctx)
    r_contract(ctx, is_fatal_fn)
    r_missing_element(ctx)
    r_context_is_current(ctx)
