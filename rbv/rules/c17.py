"""C17 - string function laws: the range-check clause (C17.R1)."""
import re

from .. import interval as iv, mir, tagflow as tf
from ..core import CheckError
from . import common

LEVEL = "other"
EXPLANATION = (
    "Decides the last sentence of the property - `negative counts and non-positive start "
    "positions raise Illegal function call (5)`: (R1) in the run function of each string built-in "
    "every argument the property calls a count (LEFT$ 2, RIGHT$ 2, MID$ 3, SPACE$ 1, STRING$ 1) is "
    "read through VariantCasts::to_non_negative_int and every start position (MID$ 2, INSTR 1 of 3) "
    "through to_positive_int; (R2) interval dataflow over those two accessors: the value converted "
    "to usize on the success path is >= 0 resp. >= 1 and the other path builds IllegalFunctionCall; and "
    "one structural part of `counts clamped to the length`: (R3) the end of every substring range "
    "handed to str::get in the string built-ins is proved <= LEN(s); and one of `VAL(STR$(k)) = k`: (R4) "
    "every numeric result VAL builds is negated exactly on the negative side of its sign test; (R5) UCASE$ / LCASE$ use the whole-string ASCII fold of the standard library, or their own character function maps all 128 ASCII characters as stated (evaluated per character)."
    " (R6) a built-in function writes to the variables of its call only through the result setter: it leaves its arguments, which are written back to the caller's variables when passed by reference, as it found them."
    " (R7 = C12.R16) the VM does not tell the numeric types apart when it decides on Type mismatch; (R8) LTRIM$ / RTRIM$ trim with the blank character as pattern, not with the std white-space trims; (R9) the code of CHR$ is range-tested before it is narrowed to a byte."
    " (R10) STR$ formats with plain Display only and adds no text outside the alphabet VAL reads (no exponent formatter, no letters)."
    " (R11) the limit on the length of a string is inclusive: the guard in front of every Out of string space, evaluated on the three orderings of length and MAX_STRING_LENGTH, makes the string below and at the limit and refuses it above."
    " (R12) INSTR visits every start position: each variable its search loop carries forward is advanced by the constant 1 (or the search is handed to str::find); an advance by a computed amount is reported - also a correct skip table, whose correctness is not visible in its shape.")
NOT_DECIDED = [
    "LEFT$/RIGHT$/MID$ substring equations, INSTR minimality, LEN additivity, UCASE$/LCASE$/LTRIM$/RTRIM$ "
    "laws, SPACE$ = STRING$, VAL(STR$(k)) = k (value-level string arithmetic)",
]

# (module, argument index, accessor) derived from the property sentence
REQUIRED = [
    ("left", 1, "to_non_negative_int", "LEFT$ count"),
    ("right", 1, "to_non_negative_int", "RIGHT$ count"),
    ("mid_fn", 2, "to_non_negative_int", "MID$ length"),
    ("mid_fn", 1, "to_positive_int", "MID$ start"),
    ("space", 0, "to_non_negative_int", "SPACE$ count"),
    ("string_fn", 0, "to_non_negative_int", "STRING$ count"),
    ("instr", 0, "to_positive_int", "INSTR start (3-argument form)"),
]


def _arg_index(o):
    """Constant argument index inside an origin: context()[i] or variables().get(i)."""
    o = mir.strip_all(o)
    while o[0] in ("downcast", "field"):
        o = mir.strip_all(o[1])
    if o[0] == "call" and o[1].split("::")[-1] in ("index", "index_mut", "get") and len(o[2]) >= 2:
        idx = mir.strip_all(o[2][1])
        if idx[0] == "const":
            try:
                return int(idx[1].split("_")[0])
            except ValueError:
                return None
    return None


def accessor_uses(prog, mod):
    """{arg index: set of accessor names applied} for interpreter::built_ins::<mod>."""
    fs = [f for f in prog.fns.values() if ("interpreter::built_ins::%s::" % mod) in f.id and f.crate == "rusty_basic"]
    if not fs:
        raise CheckError("built_ins::%s not found" % mod)
    out = {}
    raw = {}
    sites = {}
    for f in fs:
        pv = mir.Prov(f.body)
        for b, t in f.body.calls():
            cp = t.get("cpath") or ""
            name = cp.split("::")[-1]
            if not t["args"]:
                continue
            i = _arg_index(pv.of_operand(t["args"][0]))
            if i is None:
                continue
            if "VariantCasts::" in cp:
                out.setdefault(i, set()).add(name)
                sites.setdefault((i, name), []).append((f, b))
            elif name in ("try_cast",):
                raw.setdefault(i, set()).add(name)
    accessor_uses.sites = sites
    return out, raw, fs[0]


def _error_blocks(body):
    out = set()
    for b, blk in enumerate(body.blocks):
        for st in blk["s"]:
            if st["k"] == "assign" and st["r"]["k"] == "agg" and st["r"].get("adt") == "core::result::Result" \
                    and st["r"].get("variant") == "Err":
                out.add(b)
        t = blk["t"]
        if t["k"] == "call" and (t.get("cpath") or "").endswith("FromResidual::from_residual"):
            out.add(b)
    return out


def _is_arity_test(pv, t):
    """the switch looks at whether an optional argument exists: the discriminant of `variables().get(k)`
    or a comparison with the number of arguments"""
    p = mir.op_place(t["o"])
    if p is None:
        return False
    o = pv.of_place(p)
    if o[0] == "discr":
        base = mir.strip_all(o[1])
        return base[0] == "call" and base[1].split("::")[-1] == "get"
    return mir.origin_mentions(o, lambda x: x[0] == "call" and x[1].split("::")[-1] == "len")


def bypass_deciders(f, call_blocks):
    """Branches of f that let a non-failing path reach a return without passing one of call_blocks:
    [(switch block, is arity test)]; empty when every non-failing path passes the call."""
    body = f.body
    avoid = set(call_blocks) | _error_blocks(body)
    free = body.reachable(0, avoid=avoid)
    exits = set(body.exits())
    if not (free & exits):
        return []
    pv = mir.Prov(body)
    # blocks from which a return is reachable without the call
    can_bypass = {b for b in free if body.reachable(b, avoid=avoid) & exits}
    # blocks from which the call is still reachable
    reaches_call = {b for b in range(body.nblocks) if body.reachable(b) & set(call_blocks)}
    out = []
    for b in sorted(can_bypass):
        t = body.term(b)
        if t["k"] != "switch" or b not in reaches_call:
            continue
        for x in body.succ(b):
            if x in can_bypass and x not in reaches_call:
                out.append((b, _is_arity_test(pv, t)))
                break
    if not out:
        out.append((0, False))
    return out


def r1_accessors(ctx, rule="C17.R1"):
    prog = ctx.prog
    for mod, idx, accessor, what in REQUIRED:
        uses, raw, f = accessor_uses(prog, mod)
        got = uses.get(idx, set())
        key = "%s:%s:arg%d:%s" % (rule, mod, idx, accessor)
        ctx.decide(accessor in got, rule, key, f.loc, "%s read through %s" % (what, accessor),
                   "%s (argument %d of %s) is read through %s instead of %s: an out-of-range value is "
                   "not rejected with Illegal function call"
                   % (what, idx, mod, sorted(got | raw.get(idx, set())) or "nothing recognised", accessor))
        # ... on every non-failing path: a path that skips the accessor skips the range check. Only the
        # absence of an optional argument may decide that the argument is not read
        sites = accessor_uses.sites.get((idx, accessor), [])
        by_fn = {}
        for g, b in sites:
            by_fn.setdefault(g.id, (g, []))[1].append(b)
        for gid, (g, blocks) in sorted(by_fn.items()):
            dec = bypass_deciders(g, blocks)
            bad = [b for b, arity in dec if not arity]
            ctx.decide(not bad, rule, key + ":on-every-path", g.loc,
                       "every non-failing path reads %s through %s (%d arity branches aside)" % (what, accessor, len(dec)),
                       "%s: a non-failing path of %s returns without reading argument %d through %s (the branch is "
                       "not a test for an optional argument): on that path an out-of-range value is accepted "
                       "instead of raising Illegal function call" % (what, g.name, idx, accessor))
    ctx.require(rule, 14)


def r2_accessor_ranges(ctx, rule="C17.R2"):
    prog = ctx.prog
    for name, low in (("to_non_negative_int", 0), ("to_positive_int_or", 1)):
        fs = [f for f in prog.fns.values() if f.name == name and f.impl and f.impl["self_ty"].endswith("Variant")
              and "variant_casts" in f.id]
        if len(fs) != 1:
            raise CheckError("anchor VariantCasts::%s" % name)
        f = fs[0]
        an = iv.Analysis(prog, f)
        an.run()
        casts = [(ty, v) for ty, v in an.casts if ty == "usize"]
        ok = bool(casts) and all(iv.is_int(v) and v[1] >= low for _ty, v in casts)
        ctx.decide(ok, rule, "%s:%s:lower-bound" % (rule, name), f.loc,
                   "value converted to usize is >= %d" % low,
                   "%s converts a value to usize whose interval is %s (needs >= %d): a rejected value "
                   "slips through" % (name, [(v[1], v[2]) for _t, v in casts if iv.is_int(v)], low))
        built = {s["r"]["variant"] for blk in f.body.blocks for s in blk["s"]
                 if s["k"] == "assign" and s["r"]["k"] == "agg" and s["r"].get("adt", "").endswith("::RuntimeError")}
        if name == "to_non_negative_int":
            ctx.decide("IllegalFunctionCall" in built, rule, "%s:%s:error-5" % (rule, name), f.loc,
                       "rejected side raises IllegalFunctionCall", "%s builds %s" % (name, sorted(built)))
    tp = [f for f in prog.fns.values() if f.name == "to_positive_int" and "variant_casts" in f.id and f.impl]
    if len(tp) != 1:
        raise CheckError("anchor VariantCasts::to_positive_int")
    built = {s["r"]["variant"] for blk in tp[0].body.blocks for s in blk["s"]
             if s["k"] == "assign" and s["r"]["k"] == "agg" and s["r"].get("adt", "").endswith("::RuntimeError")}
    ctx.decide(built == {"IllegalFunctionCall"}, rule, rule + ":to_positive_int:error-5", tp[0].loc,
               "to_positive_int rejects with IllegalFunctionCall", "to_positive_int passes %s" % sorted(built))
    ctx.require(rule, 4)


def r3_substring_ranges(ctx, rule="C17.R3"):
    """`counts clamped to the length`: the string built-ins cut substrings with str::get(range)
    and turn a None (range outside the string) into "".  That idiom is right only when the *end* of
    the range can never exceed the length - then None means the start is past the end, for which ""
    is the answer.  Each end handed to str::get in interpreter/built_ins is proved <= len(s) from
    the comparisons that dominate its definitions (an unclamped end silently yields "")."""
    from .. import bounds
    prog = ctx.prog
    n = 0
    for fn in sorted(prog.fns.values(), key=lambda f: f.id):
        if fn.body is None or fn.crate != "rusty_basic" or "interpreter::built_ins::" not in fn.path:
            continue
        for b, t in fn.body.calls():
            if mir.callee_path(t) != "core::str::<impl str>::get" or len(t["args"]) != 2:
                continue
            g = ((t.get("f") or {}).get("k") or {}).get("gargs") or []
            kind = (g[0] if g else "").split("<")[0].split("::")[-1]
            if kind not in ("Range", "RangeTo", "RangeInclusive", "RangeToInclusive"):
                continue          # start.. has no end to clamp
            p = mir.op_place(t["args"][1])
            d = fn.body.single_def(p[0]) if p is not None else None
            if d is None or d[1] == "T" or d[2]["r"].get("k") != "agg":
                ctx.unknown(rule, "%s:%s:range" % (rule, fn.name), fn.loc, "range value not built in place")
                continue
            ops = d[2]["r"]["ops"]
            end_op = ops[-1]
            recv = t["args"][0]
            ok, why = bounds.prove_upper_bound_all_defs(
                prog, fn, b, end_op, lambda ex: ("len", bounds._strip(ex.of_operand(recv))))
            n += 1
            ctx.decide(ok, rule, "%s:%s:end-within-length" % (rule, fn.name), "%s:%s" % (fn.file, t.get("ln")),
                       why, "the end of the substring range is not proved <= LEN(s) (%s): for a count that runs "
                       "past the end of the string str::get returns None and the built-in answers \"\" instead "
                       "of the remaining characters" % why)
    ctx.analysed_units(rule, ranges=n)
    ctx.require(rule, 1)


NUMERIC_VARIANTS = ("VInteger", "VLong", "VSingle", "VDouble")


def r4_val_sign(ctx, rule="C17.R4"):
    """`VAL(STR$(k)) = k for every whole number k`, the part that is visible in the shape of the
    code: VAL parses the magnitude and remembers the sign in a flag; every numeric result it builds
    must be negated exactly where the flag says `negative`.  Each construction of a numeric Variant
    in `val` is placed under the sign test that dominates it: on the negative side the payload must
    come from a negation (or the value goes through Variant::negate before it is returned), on the
    positive side it must not.  A value built before the sign is tested must reach a sign test whose
    negative side negates on every path and whose positive side never does."""
    prog = ctx.prog
    fs = [f for f in prog.fns.values() if f.crate == "rusty_basic" and f.path.endswith("built_ins::val::val")]
    if len(fs) != 1:
        raise CheckError("anchor built_ins::val::val: %d matches" % len(fs))
    f = fs[0]
    body = f.body
    pv = mir.Prov(body)
    # the sign flag: a bool local assigned the constants true and false
    flags = []
    for l, ds in body.defs().items():
        vals = set()
        for b, i, st in ds:
            if i != "T" and st["r"]["k"] == "use" and (st["r"]["o"].get("k") or {}).get("ty") == "bool":
                vals.add(st["r"]["o"]["k"].get("int"))
        if vals == {0, 1}:
            flags.append(l)
    if len(flags) != 1:
        raise CheckError("%s: expected one sign flag in val(), found %d" % (rule, len(flags)))
    flag = flags[0]

    def is_flag(op, blk):
        p = mir.op_place(op)
        if p is None or p[1]:
            return False
        l = p[0]
        for st in reversed(blk["s"]):
            if st["k"] == "assign" and st["p"][0] == l and not st["p"][1] and st["r"]["k"] == "use":
                q = mir.op_place(st["r"]["o"])
                if q is not None and not q[1]:
                    l = q[0]
        return l == flag
    sign_sw = {}
    for b, blk in enumerate(body.blocks):
        t = blk["t"]
        if t["k"] == "switch" and is_flag(t["o"], blk):
            neg = [tg for v, tg in t["ts"] if v == 0]
            pos = [tg for v, tg in t["ts"] if v != 0] or [t["else"]]
            if not neg:
                neg, pos = [t["else"]], pos
            sign_sw[b] = (neg[0], pos[0])
    hops = 0
    while not sign_sw and hops < 2:
        # the magnitude and the flag are handed to a private helper of the same file that builds the result:
        # the helper is judged, with the parameter that receives the flag as the flag
        nxt = None
        for b, blk in enumerate(body.blocks):
            t = blk["t"]
            if t["k"] != "call" or body.is_cleanup(b):
                continue
            g = prog.fns.get(t.get("res") or mir.callee_of(t))
            if g is None or g.file != f.file or g.body is None or g.id == f.id:
                continue
            for k, a in enumerate(t["args"]):
                if is_flag(a, blk):
                    nxt = (g, k + 1)
        if nxt is None:
            break
        f, flag = nxt
        body = f.body
        pv = mir.Prov(body)
        for b, blk in enumerate(body.blocks):
            t = blk["t"]
            if t["k"] == "switch" and is_flag(t["o"], blk):
                neg = [tg for v, tg in t["ts"] if v == 0]
                pos = [tg for v, tg in t["ts"] if v != 0] or [t["else"]]
                if not neg:
                    neg, pos = [t["else"]], pos
                sign_sw[b] = (neg[0], pos[0])
        hops += 1
    if not sign_sw:
        raise CheckError("%s: val() never tests its sign flag" % rule)
    negate_blocks = {b for b, t in body.calls() if (t.get("cpath") or "").split("::")[-1] == "negate"}
    exits = set(body.exits())

    def polarity(b):
        best = None
        for sb, (neg, pos) in sign_sw.items():
            if not body.dominates(sb, b):
                continue
            side = None
            if neg != pos and body.dominates(neg, b) and b in body.reachable(neg):
                side = "negative"
            elif neg != pos and body.dominates(pos, b) and b in body.reachable(pos):
                side = "positive"
            if side and (best is None or body.dominates(best[0], sb)):
                best = (sb, side)
        return best[1] if best else None
    n = 0
    for b, blk in enumerate(body.blocks):
        if body.is_cleanup(b):
            continue
        for st in blk["s"]:
            r = st.get("r", {})
            if st["k"] != "assign" or r.get("k") != "agg" or not (r.get("adt") or "").endswith("::Variant") \
                    or r.get("variant") not in NUMERIC_VARIANTS or not r.get("ops"):
                continue
            if "k" in r["ops"][0]:
                continue    # a constant (VAL of text without digits is 0)
            n += 1
            o = pv.of_operand(r["ops"][0])
            negated = mir.origin_mentions(o, lambda z: z[0] == "un" and z[1] == "Neg")
            side = polarity(b)
            key = "%s:%s@%s" % (rule, r["variant"], side or "before-sign-test")
            k = sum(1 for x in ctx.obs if x.key.startswith(key))
            key += "#%d" % k if k else ""
            loc = "%s:%s" % (f.file, st.get("ln"))
            if side == "negative":
                later = body.every_path_passes(b, exits, negate_blocks) if negate_blocks else False
                ctx.decide(negated or later, rule, key, loc, "negated on the negative side",
                           "val() builds a %s on the side of the sign test where the text started with `-` "
                           "but the payload is not negated: VAL of that text returns the positive magnitude "
                           "(VAL(STR$(k)) <> k for those k)" % r["variant"])
            elif side == "positive":
                ctx.decide(not negated, rule, key, loc, "not negated on the positive side",
                           "val() negates the payload of a %s although the text had no `-` sign" % r["variant"])
            else:
                sws = set(sign_sw) & body.reachable(b)
                ok = bool(sws) and body.every_path_passes(b, exits, sws)
                for sb in sws:
                    neg, pos = sign_sw[sb]
                    first = not any(x != sb and x in body.reachable(b) and sb in body.reachable(x) and
                                    body.dominates(x, sb) for x in sws)
                    if not first:
                        continue
                    negates_on_positive_side = {x for x in body.reachable(pos)
                                                if x in negate_blocks and not body.dominates(neg, x)}
                    # on the negative side the only way around negate() is a magnitude of zero (-0 = 0)
                    zero_exits = set()
                    for zb in body.reachable(neg):
                        zt = body.term(zb)
                        if zt["k"] != "switch":
                            continue
                        zo = pv.of_operand(zt["o"])
                        if zo[0] == "bin" and zo[1] == "Eq" and any(
                                x[0] == "const" and re.match(r"^-?0(\.0*)?(_?(f32|f64|i32|i64|usize))?$", x[1]) for x in (zo[2], zo[3])):
                            zero_exits |= {tg for v, tg in zt["ts"] if v != 0} or {zt["else"]}
                            if any(v == 0 for v, _tg in zt["ts"]):
                                zero_exits = {zt["else"]} | {tg for v, tg in zt["ts"] if v != 0}
                    ok = ok and body.every_path_passes(neg, exits, negate_blocks | zero_exits) and \
                        bool(negate_blocks & body.reachable(neg)) and not negates_on_positive_side
                ctx.decide(ok and not negated, rule, key, loc,
                           "built from the magnitude, then negated on the negative side of the sign test only",
                           "a %s built by val() before the sign is tested does not reach `negate()` exactly on the "
                           "negative side of the test" % r["variant"])
    ctx.analysed_units(rule, numeric_results=n, sign_tests=len(sign_sw))
    # (since fix 591360b val() builds one DOUBLE from the magnitude and negates it on the negative side)
    ctx.require(rule, 1)


def r5_case_folding_changes_only_letters(ctx, rule="C17.R5"):
    """`UCASE$ / LCASE$ change only letters`: the built-in either uses the whole-string ASCII fold of
    the standard library, or a character function of its own - which is then evaluated on every
    ASCII character and compared with the table the property states (letters to the other case,
    everything else unchanged)."""
    from .. import charpred
    prog = ctx.prog
    eng = charpred.engine(prog)
    want = {"LCase": lambda c: c + 32 if 65 <= c <= 90 else c, "UCase": lambda c: c - 32 if 97 <= c <= 122 else c}
    std_ok = {"LCase": ("to_ascii_lowercase", "to_lowercase"), "UCase": ("to_ascii_uppercase", "to_uppercase")}
    found = {}
    for f in prog.fns.values():
        if f.crate != "rusty_basic" or f.kind == "closure":
            continue
        pv = None
        for b, t in f.body.calls():
            if (t.get("cpath") or "").split("::")[-1] != "set_built_in_function_result" or len(t["args"]) < 2:
                continue
            pv = pv or mir.Prov(f.body)
            o = mir.strip_all(pv.of_operand(t["args"][1]))
            txt = str(o)
            for which in ("LCase", "UCase"):
                if "BuiltInFunction::%s" % which in txt or (o[0] == "agg" and which in str(o[2:3])):
                    found[which] = f
    for which in ("LCase", "UCase"):
        f = found.get(which)
        if f is None:
            raise CheckError("%s: built-in that sets the result of %s not found" % (rule, which))
        fs = [f] + prog.closures_of(f)
        names = {(t.get("cpath") or "").split("::")[-1] for g in fs for _b, t in g.body.calls()}
        key = "%s:%s" % (rule, which)
        if names & set(std_ok[which]):
            ctx.ok(rule, key, f.loc, "whole-string fold of the standard library (%s)" % sorted(names & set(std_ok[which])))
            continue
        # a character function handed to an iterator adapter
        cands = []
        for g in fs:
            for _b, t in g.body.calls():
                for a in t["args"]:
                    pr = charpred.pred_of_operand(prog, g, a)
                    if pr is None:
                        continue
                    h = pr[1] if pr[0] in ("fn", "closure") else None
                    if h is not None and h.body.locals[0]["ty"] == "char":
                        cands.append(pr)
        if not cands:
            ctx.unknown(rule, key, f.loc, "neither the standard fold nor a character function found")
            continue
        diffs, undecided = [], []
        for pr in cands:
            h = pr[1]
            for c in range(128):
                arg = tf.K(c)
                rs = eng.summary(h, (tf.TOP, arg) if pr[0] == "closure" else (arg,))
                vals = {tf.deref(r)[1] for r in rs if tf.deref(r)[0] == "k"}
                if len(vals) != 1 or len(rs) != len(vals):
                    undecided.append(c)
                elif vals != {want[which](c)}:
                    diffs.append((c, sorted(vals)[0]))
        if undecided and not diffs:
            ctx.unknown(rule, key, f.loc, "character function not decided for codes %s" % undecided[:8])
            continue
        ctx.decide(not diffs, rule, key, f.loc, "128 characters map as stated",
                   "%s$ changes characters that are not letters (or leaves letters): %s" % (
                       which.upper(), ", ".join("CHR$(%d) `%s` -> CHR$(%d)" % (c, chr(c) if 32 <= c < 127 else "?", v)
                                                for c, v in diffs[:8])))
    ctx.require(rule, 2)


def r6_functions_leave_their_arguments_alone(ctx, rule="C17.R6"):
    """The arguments of a built-in FUNCTION are variables of the call's context, and those that were
    passed by reference are written back to the caller's variables when the call returns.  A function
    that changes one of them changes the caller's variable: `LEFT$(s$, n)` must leave `s$` as it was, or
    no law that mentions `s` twice holds.  Every mutable access to the context in a function reached from
    an arm of the built-in function dispatcher must be the receiver of the result setter (the Context method
    that takes the `BuiltInFunction` it stores the result for)."""
    prog = ctx.prog
    disp = [f for f in prog.fns.values() if f.crate == "rusty_basic" and f.kind == "fn" and f.body is not None
            and any(s2.adt.endswith("::BuiltInFunction") and len(s2.arms) >= 15 for s2 in mir.enum_switches(prog, f.body))
            and "built_ins" in f.id and "interpreter" in f.id]
    if len(disp) != 1:
        raise CheckError("%s: the dispatcher over BuiltInFunction was not found (%d candidates)" % (rule, len(disp)))
    d = disp[0]
    sw = [s2 for s2 in mir.enum_switches(prog, d.body) if s2.adt.endswith("::BuiltInFunction")][0]
    n = 0
    for v, tgt in sorted(sw.arms.items()):
        region = mir.arm_region(d.body, sw.bb, tgt)
        roots = [prog.fns[mir.callee_of(t)] for _b, t in mir.region_calls(d.body, region) if mir.callee_of(t) in prog.fns]
        roots = [r for r in roots if r.crate == "rusty_basic" and "built_ins" in r.id]
        seen, work = {}, list(roots)
        while work:
            f = work.pop()
            if f.id in seen or f.body is None:
                continue
            seen[f.id] = f
            for c in prog.call_edges(f):
                g = prog.fns.get(c)
                if g is not None and g.crate == "rusty_basic" and "built_ins" in g.id:
                    work.append(g)
        bad = []
        muts = 0
        for f in seen.values():
            pv = mir.Prov(f.body)
            for b, t in f.body.calls():
                if not t["args"]:
                    continue
                o = mir.strip_refs(pv.of_operand(t["args"][0]))
                if o[0] == "call" and o[1].split("::")[-1] in ("context_mut", "variables_mut"):
                    muts += 1
                    g = prog.fns.get(t.get("res") or mir.callee_of(t))
                    is_setter = g is not None and g.body is not None and any(
                        "BuiltInFunction" in g.body.locals[i]["ty"] for i in range(1, g.argc + 1))
                    if not is_setter:
                        bad.append("%s:%s %s" % (f.name, t.get("ln"), mir.callee_path(t).split("::")[-1]))
        if not roots:
            continue
        n += 1
        ctx.decide(not bad, rule, "%s:%s" % (rule, v), roots[0].loc,
                   "%d mutable accesses to the context, all of them the result setter" % muts,
                   "the built-in function %s writes to the variables of its call other than through the result setter (%s): "
                   "an argument passed by reference is written back to the caller's variable when the call returns, so the "
                   "function changes its argument" % (v, ", ".join(bad[:4])))
    ctx.analysed_units(rule, functions=n)
    ctx.require(rule, 20)


def _builtin_fns(prog, module):
    """functions of one built-in of the VM (its run() and the private helpers of its file)"""
    return [f for f in prog.fns.values() if f.crate == "rusty_basic" and f.body is not None
            and ("interpreter::built_ins::%s::" % module) in f.path]


def r8_trims_remove_blanks_only(ctx, rule="C17.R8"):
    """LTRIM$ / RTRIM$ remove leading / trailing *blanks* (CHR$(32)).  The std trims without a pattern
    (`trim`, `trim_start`, `trim_end`) remove every Unicode white space - TAB, CR, LF, form feed - so
    `LEN(RTRIM$("ab" + CHR$(9)))` is 2 instead of 3 and a line read from a file loses its tab stops.  The two
    built-ins trim with a pattern that is the blank character."""
    prog = ctx.prog
    n = 0
    for module, what in (("ltrim", "LTRIM$"), ("rtrim", "RTRIM$")):
        fns = _builtin_fns(prog, module)
        if not fns:
            raise CheckError("%s: built-in %s not found" % (rule, module))
        bare, pat = [], []
        for f in fns:
            pv = mir.Prov(f.body)
            for _b, t in f.body.calls():
                cp = t.get("cpath") or ""
                last = cp.split("::")[-1]
                if "str" not in cp:
                    continue
                if last in ("trim", "trim_start", "trim_end", "trim_left", "trim_right", "trim_ascii", "trim_ascii_start", "trim_ascii_end"):
                    bare.append("%s (line %s)" % (last, t.get("ln")))
                elif last in ("trim_start_matches", "trim_end_matches", "trim_matches", "strip_prefix", "strip_suffix") and len(t["args"]) > 1:
                    o = mir.strip_all(pv.of_operand(t["args"][1]))
                    pat.append((last, o[1] if o[0] == "const" else mir.short_origin(o)))
        n += 1
        blank_only = all(str(c) in ("' '", "32_u8", "' ' as char") or str(c).startswith("' '") for _l, c in pat)
        if not bare and not pat:
            # trimmed by hand (a loop, `find`): which characters go is a property of that code, not decided here
            ctx.ok(rule, "%s:%s" % (rule, what), fns[0].loc, "no std trim is used; the hand-written trimming is not judged")
            ctx.not_decided.append("%s: the character class removed by a hand-written trim" % rule)
            continue
        ctx.decide(not bare and blank_only, rule, "%s:%s" % (rule, what), fns[0].loc,
                   "trims with the pattern %s" % [c for _l, c in pat],
                   "%s is computed with %s: every Unicode white space is removed, not only blanks - `RTRIM$(\"ab\" + CHR$(9))` "
                   "loses the TAB" % (what, ", ".join(bare) if bare else "a pattern other than the blank: %s" % pat))
    ctx.require(rule, 2)


def r9_chr_code_is_a_byte(ctx, rule="C17.R9"):
    """`CHR$(k)` for k outside 0..255 is an Illegal function call.  The code is narrowed to a byte with `as u8`,
    which wraps silently (CHR$(256) would be CHR$(0)): the narrowing is dominated by a range test on the value
    that is narrowed - comparisons against constants (or a range `contains`) - or goes through a checked
    conversion (`u8::try_from`)."""
    prog = ctx.prog
    fns = _builtin_fns(prog, "chr")
    if not fns:
        raise CheckError("%s: built-in chr not found" % rule)
    n = 0
    for f in fns:
        body = f.body
        pv = mir.Prov(body)
        for b, blk in enumerate(body.blocks):
            if blk.get("c"):
                continue
            for st in blk["s"]:
                r = st.get("r", {})
                if st["k"] != "assign" or r.get("k") != "cast" or r.get("ck") != "IntToInt":
                    continue
                if body.locals[st["p"][0]]["ty"] != "u8":
                    continue
                n += 1
                src = mir.strip_all(pv.of_operand(r["o"]))
                guards = 0
                for b2, blk2 in enumerate(body.blocks):
                    if blk2.get("c") or not body.dominates(b2, b):
                        continue
                    for st2 in blk2["s"]:
                        r2 = st2.get("r", {})
                        if st2["k"] == "assign" and r2.get("k") == "bin" and r2.get("op") in ("Lt", "Le", "Gt", "Ge"):
                            sides = [mir.strip_all(pv.of_operand(x)) for x in (r2["a"], r2["b"])]
                            if src in sides:
                                guards += 1
                    t2 = blk2["t"]
                    if t2["k"] == "call" and (t2.get("cpath") or "").endswith("::contains") and t2["args"] and \
                            mir.strip_all(pv.of_operand(t2["args"][-1])) == src:
                        guards += 2
                ctx.decide(guards >= 2, rule, "%s:%s" % (rule, f.name), "%s:%s" % (f.file, st.get("ln")),
                           "the code is range-tested before it is narrowed to a byte",
                           "CHR$ narrows its code to a byte with `as u8` without testing its range first (%d comparisons on the "
                           "narrowed value dominate the cast): CHR$(256) is CHR$(0) and CHR$(-1) is CHR$(255) instead of an "
                           "Illegal function call" % guards)
    if not n:
        # no wrapping cast at all (u8::try_from): nothing to guard
        ctx.ok(rule, rule + ":no-wrapping-cast", fns[0].loc, "CHR$ narrows its code without a wrapping cast")
    ctx.require(rule, 1)


def r10_str_writes_what_val_reads(ctx, rule="C17.R10"):
    """`VAL(STR$(k)) = k for every whole number k`: VAL reads an optional sign, digits and a decimal point and stops
    at anything else.  STR$ therefore writes numbers in that alphabet only: it formats with the plain Display of
    the number (no exponent formatter - `{:E}` / `{:e}` - whose output VAL reads up to the letter), and the
    literal text and character constants it adds contain nothing but blanks, signs, digits and the point."""
    prog = ctx.prog
    from . import c02
    fns = _builtin_fns(prog, "str_fn")
    if not fns:
        raise CheckError("%s: built-in str_fn not found" % rule)
    allowed = set(" +-.0123456789")
    bad = []
    n_fmt = 0
    for f in fns:
        pv = mir.Prov(f.body)
        for _b, t in f.body.calls():
            cp = t.get("cpath") or ""
            last = cp.split("::")[-1]
            if "fmt::rt::Argument" in cp:
                n_fmt += 1
                if last not in ("new_display", "new"):
                    bad.append("the formatter %s (line %s)" % (last, t.get("ln")))
            if cp.startswith("std::fmt::Arguments") and cp.endswith("::new") and t["args"]:
                o = mir.strip_refs(pv.of_operand(t["args"][0]))
                if o[0] == "const":
                    items = c02.parse_fmt_template(o[1]) or []
                    for it in items:
                        if it[0] == "lit" and set(it[1]) - allowed:
                            bad.append("the literal text %r (line %s)" % (it[1], t.get("ln")))
                        if it[0] == "arg" and it[1] != 0xc0:
                            bad.append("a placeholder with a format specification (line %s)" % t.get("ln"))
            for a in t["args"]:
                k = a.get("k") or {}
                if k.get("ty") == "char" and "int" in k and chr(k["int"]) not in allowed:
                    bad.append("the character %r (line %s)" % (chr(k["int"]), t.get("ln")))
    if not n_fmt:
        raise CheckError("%s: STR$ formats nothing (the detector is blind)" % rule)
    ctx.decide(not bad, rule, rule + ":STR$", fns[0].loc,
               "%d formatter arguments, all plain Display; literal text within the alphabet of VAL" % n_fmt,
               "STR$ writes something VAL does not read - %s: VAL stops at the first character that is not a sign, a digit "
               "or the point, so VAL(STR$(k)) is only the part in front of it (1 for 1E+07)" % "; ".join(sorted(set(bad))[:4]))
    ctx.require(rule, 1)


def _is_max_len(o):
    o = mir.strip_all(o)
    return o[0] == "const" and ("MAX_STRING_LENGTH" in str(o[1]) or str(o[1]).startswith("32767"))


def _range_of(f, body, o):
    """(low, high, inclusive) origins of a range value (a literal range, also when promoted to a constant)"""
    o = mir.strip_all(o)
    if o[0] == "promoted" and isinstance(o[1], int) and o[1] < len(f.promoted):
        pb = f.promoted[o[1]]
        o = mir.strip_all(mir.Prov(pb).of_local(0))
    if o[0] == "agg" and o[1] == "adt" and o[2].startswith(("Range::", "RangeTo::")):
        ops = o[3]
        return (ops[0] if len(ops) == 2 else None, ops[-1], False)
    if o[0] == "agg" and o[1] == "adt" and o[2].startswith("RangeToInclusive::"):
        return (None, o[3][-1], True)
    if o[0] == "call" and o[1].endswith("RangeInclusive::<Idx>::new") and len(o[2]) == 2:
        return (o[2][0], o[2][1], True)
    return None


def _limit_truth(f, body, o, ordering):
    """truth of a guard when the length stands in `ordering` (Less / Equal / Greater) to MAX_STRING_LENGTH"""
    o = mir.strip_all(o)
    if o[0] == "un" and o[1] == "Not":
        t = _limit_truth(f, body, o[2], ordering)
        return None if t is None else not t
    if o[0] == "bin" and o[1] in ("Gt", "Ge", "Lt", "Le", "Eq", "Ne"):
        a_max, b_max = _is_max_len(o[2]), _is_max_len(o[3])
        if a_max == b_max:
            return None
        c = {"Less": -1, "Equal": 0, "Greater": 1}[ordering]
        if a_max:
            c = -c          # MAX op len
        return {"Gt": c > 0, "Ge": c >= 0, "Lt": c < 0, "Le": c <= 0, "Eq": c == 0, "Ne": c != 0}[o[1]]
    if o[0] == "call" and o[1].split("::")[-1].startswith("contains") and len(o[2]) == 2:
        rg = _range_of(f, body, o[2][0])
        if rg is None or not _is_max_len(rg[1]):
            return None
        lo = rg[0]
        if lo is not None and not (mir.strip_all(lo)[0] == "const" and str(mir.strip_all(lo)[1]).startswith("0")):
            return None
        return ordering == "Less" or (ordering == "Equal" and rg[2])
    return None


def r11_length_limit_is_inclusive(ctx, rule="C17.R11"):
    """`LEN(a$ + b$) = LEN(a$) + LEN(b$)` / `LEFT$(s$, n) + MID$(s$, n + 1) = s$`: for every string the language can
    hold - up to and including MAX_STRING_LENGTH characters.  Wherever a result is refused with Out of string space,
    the guard in front of it is evaluated on the three ways the length can stand to the limit: below and at the
    limit the string is made, only above it the error is raised (a guard written `<`, `>=` or as a half-open range
    refuses the longest string)."""
    prog = ctx.prog
    n = 0
    for f in sorted(prog.fns.values(), key=lambda f: f.id):
        if f.crate not in ("rusty_variant", "rusty_basic") or f.body is None or "::tests" in f.id:
            continue
        body = f.body
        errs = set()
        for b, blk in enumerate(body.blocks):
            if body.is_cleanup(b):
                continue
            for st in blk["s"]:
                r = st.get("r", {})
                if st["k"] == "assign" and r.get("k") == "agg" and r.get("variant") == "OutOfStringSpace" \
                        and (r.get("adt") or "").endswith(("VariantError", "RuntimeError")):
                    errs.add(b)
        if not errs:
            continue
        # translations of one error type into another (From, Clone) copy the variant, they do not raise it
        if any("OutOfStringSpace" in sw.arms for sw in mir.enum_switches(prog, body)):
            continue
        pv = mir.Prov(body)
        for eb in sorted(errs):
            guards = []
            for b, blk in enumerate(body.blocks):
                t = blk["t"]
                if t["k"] != "switch" or t.get("ty") != "bool" or body.is_cleanup(b):
                    continue
                tf_, tt_ = t["ts"][0][1], t["else"]
                rf, rt = body.reachable(tf_), body.reachable(tt_)
                if (eb in rf) != (eb in rt):
                    guards.append((b, t, eb in rt))
            n += 1
            key = "%s:%s" % (rule, f.name)
            if not guards:
                ctx.violation(rule, key, f.loc, "%s raises Out of string space with no test in front of it" % f.name, {})
                continue
            # the innermost guard that mentions the limit
            res = None
            for b, t, on_true in guards:
                o = pv.of_operand(t["o"])
                tr = {k: _limit_truth(f, body, o, k) for k in ("Less", "Equal", "Greater")}
                if None in tr.values():
                    continue
                res = {k: (v if on_true else not v) for k, v in tr.items()}
            if res is None:
                ctx.unknown(rule, key, f.loc, "the guard of Out of string space in %s was not read (%s)"
                            % (f.name, [mir.short_origin(pv.of_operand(t["o"]))[:80] for b, t, _x in guards]))
                continue
            ctx.decide(res == {"Less": False, "Equal": False, "Greater": True}, rule, key, f.loc,
                       "Out of string space is raised exactly when the length is above MAX_STRING_LENGTH",
                       "%s raises Out of string space when the length of the result is %s MAX_STRING_LENGTH: a string of "
                       "exactly 32767 characters, which the language can hold, cannot be made by concatenation "
                       "(LEN(a$ + b$) = LEN(a$) + LEN(b$) fails at that length)"
                       % (f.name, " / ".join({"Less": "below", "Equal": "equal to", "Greater": "above"}[k] for k in ("Less", "Equal", "Greater") if res[k])))
    ctx.require(rule, 1)


def r12_instr_visits_every_position(ctx, rule="C17.R12"):
    """INSTR(n, s, t) is the *least* position >= n at which t occurs.  A search written as a loop over start positions
    finds the least one only if it visits every position: each variable the loop carries forward by adding to itself is
    advanced by the constant 1.  (A search handed to str::find / match_indices visits every position by contract.)  An
    advance by a computed amount - the length of a partial match, say - jumps over occurrences that start inside it."""
    prog = ctx.prog
    fns = [f for f in _builtin_fns(prog, "instr") if f.kind != "closure"]
    if not fns:
        raise CheckError("%s: built-in instr not found" % rule)
    n_loops = 0
    delegated = False
    for f in fns:
        body = f.body
        for _b, t in body.calls():
            cp_ = mir.callee_path(t) or ""
            if re.search(r"str>::(find|match_indices|rfind)$|<impl str>::(find|match_indices)", cp_):
                delegated = True
            # an iterator search over every window / every index, in order: `windows(n) ... find / position`
            if cp_.endswith(("Iterator::find", "Iterator::position", "Iterator::find_map")) and \
                    any((mir.callee_path(t2) or "").endswith(("::windows", "::char_indices", "::match_indices"))
                        for _b2, t2 in body.calls()) and \
                    not any((mir.callee_path(t2) or "").endswith(("Iterator::step_by", "Iterator::skip_while"))
                            for _b2, t2 in body.calls()):
                delegated = True
        for b, blk in enumerate(body.blocks):
            if blk.get("c"):
                continue
            succs = body.succ(b)
            in_cycle = any(b in body.reachable(x) for x in succs if not body.is_cleanup(x))
            if not in_cycle:
                continue
            for st in blk["s"]:
                if st["k"] != "assign" or st["p"][1] or st["r"]["k"] != "use":
                    continue
                src = mir.op_place(st["r"]["o"])
                if src is None or src[1] != [{"f": 0}]:
                    continue
                d = body.single_def(src[0])
                if not d or d[1] == "T" or d[2]["r"]["k"] != "bin" or d[2]["r"]["op"] not in ("Add", "AddWithOverflow"):
                    continue
                r = d[2]["r"]
                pa, pb = mir.op_place(r["a"]), mir.op_place(r["b"])
                L = st["p"][0]
                if pa is not None and pa == [L, []]:
                    other = r["b"]
                elif pb is not None and pb == [L, []]:
                    other = r["a"]
                else:
                    continue
                n_loops += 1
                k = (other.get("k") or {}).get("int") if isinstance(other, dict) else None
                name = body.var_name(L) or "_%d" % L
                ctx.decide(k == 1, rule, "%s:%s:%s" % (rule, f.name, name), "%s:%s" % (f.file, st.get("ln")),
                           "%s advances by 1" % name,
                           "the search loop of %s advances `%s` by %s: INSTR no longer visits every start position, so it misses an "
                           "occurrence that begins inside a partial match (INSTR(\"aaab\", \"aab\") is 2)"
                           % (f.name, name, "the constant %s" % k if k is not None else "a computed amount"))
    if not n_loops:
        if delegated:
            ctx.ok(rule, rule + ":delegated", fns[0].loc, "the search is handed to str::find / an in-order iterator search over every window")
        else:
            ctx.unknown(rule, rule + ":search", fns[0].loc, "INSTR neither loops over start positions nor calls str::find: not decided")
    ctx.require(rule, 0, max_unknown=1)


def run(ctx):
    common.install(ctx)
    r1_accessors(ctx)
    r2_accessor_ranges(ctx)
    r3_substring_ranges(ctx)
    r4_val_sign(ctx)
    r5_case_folding_changes_only_letters(ctx)
    r6_functions_leave_their_arguments_alone(ctx)
    # SPACE$(n) = STRING$(n, 32) however the 32 is supplied: the VM does not tell the numeric types apart
    from . import c12
    c12.r16_numeric_types_are_interchangeable_at_run_time(ctx, "C17.R7")
    r8_trims_remove_blanks_only(ctx)
    r9_chr_code_is_a_byte(ctx)
    r10_str_writes_what_val_reads(ctx)
    r11_length_limit_is_inclusive(ctx)
    r12_instr_visits_every_position(ctx)
