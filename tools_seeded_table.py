#!/usr/bin/env python3
"""maintenance helper (not used by checks): regenerate the table of seeded changes in DESIGN.md 9.5
from seeded/*/meta.json (between the table header and the first blank line after it)."""
import json, os, re
V = os.path.dirname(os.path.abspath(__file__))
rows = []
for sid in sorted(os.listdir(os.path.join(V, "seeded")), key=lambda s: (s.split("-")[0], int(s.split("-")[1]))):
    m = json.load(open(os.path.join(V, "seeded", sid, "meta.json")))
    by = "; ".join(m.get("detected_by") or [])
    if not by:
        by = "**not detected** - " + m.get("not_detected_reason", "")
    rows.append("| %s | %s | %s | %s |" % (sid, m["property"], m["summary"].replace("|", "/"), by.replace("|", "/")))
p = os.path.join(V, "DESIGN.md")
s = open(p).read()
head = "| id | property | the change (compiles, 1216 tests + doctests pass, demonstrated) | check that reports it |\n|---|---|---|---|\n"
i = s.index(head) + len(head)
j = s.index("\n\n", i)
s = s[:i] + "\n".join(rows) + s[j:]
open(p, "w").write(s)
print(len(rows), "rows;", sum(1 for r in rows if "**not detected**" in r), "not detected")
