#!/usr/bin/env python3
"""Seeded-mutant self-validation: apply a one-edit mutant to a scratch copy of /repo, re-run the
check against the copy (RBV_REPO) and report whether the expected obligation is reported.
usage: mutate.py [--prop Cxx] [--id name]      (tables/mutants/*.json)"""
import glob, json, os, shutil, subprocess, sys, tempfile

VERIF = os.path.dirname(os.path.abspath(__file__))
REPO = os.environ.get("RBV_REPO", "/repo")


def copy_repo(dst):
    subprocess.run(["rsync", "-a", "--exclude", "target", "--exclude", ".git", REPO + "/", dst + "/"], check=True)


def run_mutant(m):
    tmp = tempfile.mkdtemp(prefix="rbv-mutant-")
    try:
        copy_repo(tmp)
        p = os.path.join(tmp, m["file"])
        src = open(p).read()
        if src.count(m["old"]) != 1:
            return {"id": m["id"], "status": "not-applicable", "why": "pattern occurs %d times" % src.count(m["old"])}
        open(p, "w").write(src.replace(m["old"], m["new"]))
        env = dict(os.environ, RBV_REPO=tmp, RBV_EVIDENCE_DIR=os.path.join(tmp, "_evidence"))
        r = subprocess.run([os.path.join(VERIF, "check"), m["property"]], env=env, stdout=subprocess.PIPE,
                           stderr=subprocess.STDOUT, text=True)
        out = r.stdout
        hit = [l for l in out.splitlines() if m["expect"] in l and "KNOWN-FINDING" not in l]
        status = "detected" if (r.returncode == 1 and hit) else ("check-error" if r.returncode == 2 else "missed")
        return {"id": m["id"], "status": status, "rc": r.returncode, "lines": hit[:2] or out.splitlines()[-3:]}
    finally:
        shutil.rmtree(tmp, ignore_errors=True)


def load(prop=None, mid=None):
    ms = []
    for f in sorted(glob.glob(os.path.join(VERIF, "tables", "mutants", "*.json"))):
        for m in json.load(open(f)):
            if (prop is None or m["property"] == prop) and (mid is None or m["id"] == mid):
                ms.append(m)
    return ms


if __name__ == "__main__":
    prop = mid = None
    a = sys.argv[1:]
    while a:
        if a[0] == "--prop":
            prop = a[1]; a = a[2:]
        elif a[0] == "--id":
            mid = a[1]; a = a[2:]
        else:
            a = a[1:]
    from concurrent.futures import ThreadPoolExecutor
    ms = load(prop, mid)
    with ThreadPoolExecutor(max_workers=4) as ex:
        for res in ex.map(run_mutant, ms):
            print(json.dumps(res))
