"""C04 - arrays, records, fixed-length strings (C04.R1-R5)."""
from .. import emit, mir, optables as ot, tagflow as tf
from ..core import CheckError
from . import common, c06

LEVEL = "other"
EXPLANATION = (
    "(R1) every emitted store into a variable is preceded by a conversion to the target's type "
    "(Cast / FixLength through the casting emitter), a fresh allocation, or the by-reference "
    "write-back that re-fixes string length (shared with C06.R2) - the `STRING * n always holds n "
    "characters however assigned` clause; (R2) VArray::abs_index compares every index against both "
    "bounds of its dimension - canonically arg < lbound and arg > ubound - each leading to the "
    "SubscriptOutOfRange return, and both dominate the offset arithmetic; (R3) array indices are "
    "converted to INTEGER before they enter a variable path; (R4) allocation follows the declaration: "
    "every ElementType / ExpressionType / TypeQualifier maps to the allocator of the same type and "
    "fixed-length strings are allocated with their declared length; (R5) LBOUND/UBOUND report field "
    "0 / field 1 of the declared bounds; (R6) the stride of each dimension in abs_index is a "
    "loop-carried product of the dimension sizes; (R7) conversions between the type-describing enums "
    "preserve the kind of type (fixed-length string, user-defined, built-in) arm by arm; (R8) the "
    "casting emitter converts on every path of its BuiltIn and FixedLengthString arms."
    " (R11) the type the checker attaches to a record-field node is the type the TYPE declares for the element (or the type copied from the node being rewritten), never one made from the suffix the programmer wrote: the generator picks FixLength from it."
    " (R12) every emitted CopyAToVarPath pops a variable path that the same generator function built on the same emission path."
    " (R13 = C03.R1) the indices that point to memory blocks stay right when a block is removed."
    " (R14) a name with a suffix resolves to the SHARED array of that name and suffix whenever the procedure has no variable of that name and suffix itself (shared with C13.R6): `Qty%(i)` does not turn into a call of an undefined function that reads 0."
    " (R15 = C03.R10) IndexedMap::insert appends only when the key is absent: a parameter that is assigned keeps its position, which is where the by-reference write-back reads it.")
NOT_DECIDED = ["bijectivity of the flat index map (stride arithmetic) and element values (value-level)"]


def _cmp_canon(op, a, b):
    flip = {"Lt": "Gt", "Gt": "Lt", "Le": "Ge", "Ge": "Le", "Eq": "Eq", "Ne": "Ne"}
    if a > b:
        return (flip[op], b, a)
    return (op, a, b)


def _lin(o, depth=0):
    """linear form {symbol: coefficient} over arg / lbound / ubound / '1' of an origin, or None"""
    if depth > 12:
        return None
    k = o[0]
    if k in ("ref", "deref", "clone", "cast"):
        return _lin(o[1], depth + 1)
    if k == "field" and o[2] in ("0", 0) and o[1][0] == "bin":
        return _lin(o[1], depth + 1)
    if k == "const":
        import re as _re
        m = _re.fullmatch(r"(-?\d+)(_[iu](\d+|size))?", str(o[1]))
        if m:
            return {"1": int(m.group(1))}
        return None
    pair = None
    if k == "bin" and o[1] in ("Add", "AddWithOverflow", "Sub", "SubWithOverflow"):
        pair = (1 if o[1].startswith("Add") else -1, o[2], o[3])
    elif k == "call" and len(o[2]) == 2 and str(o[1]).split("::")[-1] in ("add", "sub") and "ops::arith" in str(o[1]).replace("std::ops::", "ops::arith::").replace("core::ops::", "ops::arith::"):
        pair = (1 if str(o[1]).split("::")[-1] == "add" else -1, o[2][0], o[2][1])
    if pair is not None:
        x, y = _lin(pair[1], depth + 1), _lin(pair[2], depth + 1)
        if x is None or y is None:
            return None
        out = dict(x)
        for kk, v in y.items():
            out[kk] = out.get(kk, 0) + pair[0] * v
        return {kk: v for kk, v in out.items() if v}
    c = _try_payload_call(o)
    if c is not None and _PROG[0] is not None and _PARAM_ROLES[0] is None:
        h = _PROG[0].fn_opt(str(c[1]))
        if h is not None and h.crate == "rusty_variant":
            roles = {i: r for i, r in enumerate(_role(a) for a in c[2]) if r}
            if roles:
                _c, oks = _helper_summary(h, roles)
                if len(oks) == 1 and oks[0] is not None:
                    return oks[0]
        return None
    if k in ("bin", "call", "agg", "un", "unknown"):
        return None
    r = _role(o)
    if r:
        return {r: 1}
    return None


def _sub(x, y, plus=0):
    out = dict(x)
    for kk, v in y.items():
        out[kk] = out.get(kk, 0) - v
    out["1"] = out.get("1", 0) + plus
    return {kk: v for kk, v in out.items() if v}


def _show_le0(f):
    """the error condition `f <= 0` in words"""
    if f.get("arg") == 1 and f.get("lbound") == -1 and set(f) <= {"arg", "lbound", "1"}:
        return "arg <= lbound - %d" % f.get("1", 0) if f.get("1", 0) != 1 else "arg < lbound"
    if f.get("arg") == -1 and f.get("ubound") == 1 and set(f) <= {"arg", "ubound", "1"}:
        return "arg >= ubound + %d" % f.get("1", 0) if f.get("1", 0) != 1 else "arg > ubound"
    return " + ".join("%s*%s" % (v, kk) for kk, v in sorted(f.items())) + " <= 0"


def r2_abs_index(ctx, rule="C04.R2"):
    """Every index is refused below its lower and above its upper bound.  The guard is read as linear inequalities over
    (arg, lbound, ubound): each comparison whose true edge returns the subscript error, and each `range.contains(x)`
    whose false edge does, is normalised to `f <= 0`; the two error conditions have to be exactly arg < lbound
    (arg - lbound + 1 <= 0) and arg > ubound (ubound - arg + 1 <= 0), however they are spelled (`arg > ubound`,
    `arg - lbound >= size`, `!(0..size).contains(&(arg - lbound))` ...)."""
    prog = ctx.prog
    _PROG[0] = prog
    fn = ctx.anchor_method("VArray", "abs_index")
    body = fn.body
    pv = mir.Prov(body)
    err_blocks = {b for b, blk in enumerate(body.blocks) for s in blk["s"]
                  if s["k"] == "assign" and s["r"]["k"] == "agg" and s["r"].get("variant") == "Err"
                  and s["r"].get("adt") == "core::result::Result"}
    accum = [b for b, blk in enumerate(body.blocks) for s in blk["s"]
             if s["k"] == "assign" and s["r"]["k"] == "bin" and s["r"]["op"] in ("MulWithOverflow", "Mul")
             and not blk.get("c")]

    def edge_leads_to_err(b, local, on_true):
        t = body.term(b)
        if t["k"] != "switch" or not mir.op_place(t["o"]) or mir.op_place(t["o"])[0] != local:
            return False
        false_t = [tg for v, tg in t["ts"] if v == 0]
        if not false_t:
            return False
        start, avoid = (t["else"], set(false_t)) if on_true else (false_t[0], {t["else"]})
        return bool(body.reachable(start, avoid=avoid | set(accum)) & err_blocks)

    conds = []      # (block, error condition as linear form f: f <= 0)
    for b, blk in enumerate(body.blocks):
        if blk.get("c"):
            continue
        for s in blk["s"]:
            if s["k"] == "assign" and s["r"]["k"] == "bin" and s["r"]["op"] in ("Lt", "Le", "Gt", "Ge") and not s.get("mx"):
                x, y = _lin(pv.of_operand(s["r"]["a"])), _lin(pv.of_operand(s["r"]["b"]))
                if x is None or y is None or not ({"arg"} & (set(x) | set(y))):
                    continue
                op = s["r"]["op"]
                f = {"Lt": _sub(x, y, 1), "Le": _sub(x, y), "Gt": _sub(y, x, 1), "Ge": _sub(y, x)}[op]
                if edge_leads_to_err(b, s["p"][0], True):
                    conds.append((b, f))
        t = blk["t"]
        if t["k"] == "call" and mir.callee_path(t).endswith("::contains") and "ops::Range" in mir.callee_path(t).replace("range::", "") \
                and len(t["args"]) == 2:
            rng = mir.strip_all(pv.of_operand(t["args"][0]))
            item = _lin(pv.of_operand(t["args"][1]))
            lo = hi = None
            if rng[0] == "agg" and len(rng[3]) == 2:
                lo, hi = _lin(rng[3][0]), _lin(rng[3][1])
            elif rng[0] == "call" and len(rng[2]) == 2:
                lo, hi = _lin(rng[2][0]), _lin(rng[2][1])
            inclusive = "RangeInclusive" in mir.callee_path(t) or (rng[0] == "call" and "RangeInclusive" in str(rng[1]))
            d = t.get("d")
            nxt = t.get("t")
            if item is None or lo is None or hi is None or d is None or nxt is None:
                continue
            # the result may be negated before it is tested: follow it to the switch
            tested = None
            for bb in [nxt] + list(body.succ(nxt)):
                tt = body.term(bb)
                if tt["k"] == "switch" and mir.op_place(tt["o"]) is not None:
                    o = pv.of_operand(tt["o"])
                    neg = False
                    while o[0] == "un" and o[1] == "Not":
                        neg = not neg
                        o = o[2]
                    if o[0] == "call" and str(o[1]).endswith("::contains"):
                        tested = (bb, mir.op_place(tt["o"])[0], neg)
                        break
            if tested is None:
                continue
            bb, local, neg = tested
            # not contained -> error: the edge on which `contains` is false
            if edge_leads_to_err(bb, local, on_true=neg):
                conds.append((bb, _sub(item, lo, 1)))                       # item < lo
                conds.append((bb, _sub(hi, item, 1) if inclusive else _sub(hi, item)))   # item > hi / item >= hi
    # a helper that is handed the index and the bounds and whose error is propagated with `?`
    for b, t in body.calls():
        h = prog.fns.get(t.get("res") or mir.callee_of(t))
        if h is None or h.crate != "rusty_variant" or h.id == fn.id or "Result" not in h.body.locals[0]["ty"]:
            continue
        roles = {i: r for i, r in enumerate(_role(pv.of_operand(a)) for a in t["args"]) if r}
        if "arg" not in roles.values():
            continue
        nxt = t.get("t")
        propagated = nxt is not None and any(mir.callee_path(t2).endswith("Try>::branch") and mir.op_place(t2["args"][0]) == t.get("d")
                                             for b2, t2 in body.calls() if b2 == nxt)
        if not propagated:
            continue
        hc, _oks = _helper_summary(h, roles)
        conds += [(b, f) for f in hc]
    want = {"arg-lt-lbound": ({"arg": 1, "lbound": -1, "1": 1}, "index below the lower bound", ("arg", "lbound")),
            "arg-gt-ubound": ({"ubound": 1, "arg": -1, "1": 1}, "index above the upper bound", ("arg", "ubound"))}
    for name, (form, what, syms) in want.items():
        key = "%s:%s" % (rule, name)
        exact = [b for b, f in conds if f == form]
        near = [f for b, f in conds if set(f) - {"1"} == set(syms) and f != form
                and (f.get("arg", 0) > 0) == (form["arg"] > 0)]
        if exact:
            ctx.ok(rule, key, fn.loc, "%s -> SubscriptOutOfRange" % what)
            if accum:
                ctx.decide(all(body.dominates(exact[0], x) for x in accum), rule, key + ":dominates-offset", fn.loc,
                           "the check dominates the offset arithmetic",
                           "the bounds check no longer dominates the offset computation")
        elif near:
            ctx.violation(rule, key, fn.loc,
                          "abs_index refuses an index only when %s (wanted: %s): an %s by one is accepted and lands in a "
                          "neighbouring element" % (" / ".join(_show_le0(f) for f in near), _show_le0(form), what))
        else:
            ctx.violation(rule, key, fn.loc,
                          "abs_index has no test whose failing edge returns the subscript error for an %s (error conditions "
                          "found: %s): it is accepted" % (what, sorted(_show_le0(f) for _b, f in conds)))
    ctx.require(rule, 4)


_PARAM_ROLES = [None]     # while a helper of abs_index is analysed: {param index: role}
_PROG = [None]


def _try_payload_call(o):
    """the call whose Ok payload o is (`helper(..)?`), else None"""
    if o[0] == "field" and o[2] in ("0", 0) and o[1][0] == "downcast" and o[1][2] == "Continue":
        c = o[1][1]
        if c[0] == "call" and str(c[1]).endswith("Try>::branch") and c[2] and c[2][0][0] == "call":
            return c[2][0]
    return None


def _helper_summary(h, roles):
    """(error conditions, Ok payload forms) of a helper of abs_index, its parameters standing for `roles`"""
    body = h.body
    pv = mir.Prov(body)
    saved = _PARAM_ROLES[0]
    _PARAM_ROLES[0] = roles
    try:
        err_blocks = {b for b, blk in enumerate(body.blocks) for s in blk["s"]
                      if s["k"] == "assign" and s["r"]["k"] == "agg" and s["r"].get("variant") == "Err"
                      and s["r"].get("adt") == "core::result::Result"}
        ok_blocks = {b for b, blk in enumerate(body.blocks) for s in blk["s"]
                     if s["k"] == "assign" and s["r"]["k"] == "agg" and s["r"].get("variant") == "Ok"
                     and s["r"].get("adt") == "core::result::Result"}
        conds, oks = [], []
        for b, blk in enumerate(body.blocks):
            if blk.get("c"):
                continue
            for s in blk["s"]:
                if s["k"] == "assign" and s["r"]["k"] == "bin" and s["r"]["op"] in ("Lt", "Le", "Gt", "Ge") and not s.get("mx"):
                    x, y = _lin(pv.of_operand(s["r"]["a"])), _lin(pv.of_operand(s["r"]["b"]))
                    if x is None or y is None:
                        continue
                    f = {"Lt": _sub(x, y, 1), "Le": _sub(x, y), "Gt": _sub(y, x, 1), "Ge": _sub(y, x)}[s["r"]["op"]]
                    t = body.term(b)
                    if t["k"] == "switch" and mir.op_place(t["o"]) and mir.op_place(t["o"])[0] == s["p"][0]:
                        false_t = [tg for v, tg in t["ts"] if v == 0]
                        if false_t and body.reachable(t["else"], avoid=set(false_t) | ok_blocks) & err_blocks:
                            conds.append(f)
                if s["k"] == "assign" and s["r"]["k"] == "agg" and s["r"].get("variant") == "Ok" \
                        and s["r"].get("adt") == "core::result::Result" and s["r"]["ops"]:
                    oks.append(_lin(pv.of_operand(s["r"]["ops"][0])))
        return conds, oks
    finally:
        _PARAM_ROLES[0] = saved


def _role(o):
    if _PARAM_ROLES[0] is not None:
        base = mir.strip_all(o)
        return _PARAM_ROLES[0].get(base[1]) if base[0] == "param" else None
    # the iterator spelling: `for (&arg, &(lbound, ubound)) in indices.iter().zip(self.dimensions.iter())`
    import re as _re
    full = str(o)
    m = _re.search(r"zip\((.*?), (.*?)\)\)*.* as Some\)\.0\.(\d)(?:\.(\d))?$", full)
    if m and "dimensions" in m.group(2) and "dimensions" not in m.group(1):
        if m.group(3) == "0":
            return "arg"
        if m.group(3) == "1" and m.group(4) == "0":
            return "lbound"
        if m.group(3) == "1" and m.group(4) == "1":
            return "ubound"
    s = mir.short_origin(o)
    if "arg1" in s and "dimensions" not in s:
        return "arg"
    if "dimensions" in s and s.endswith(".0"):
        return "lbound"
    if "dimensions" in s and s.endswith(".1"):
        return "ubound"
    return None


def r3_index_cast(ctx, rule="C04.R3"):
    prog = ctx.prog
    fn = ctx.anchor_method("InstructionGenerator", "generate_path_instructions")
    evs = emit.events(prog, fn)
    sites = [e for e in evs.values() if e.kind == "push" and e.instr == "VarPathIndex"]
    if not sites:
        raise CheckError("generate_path_instructions emits no VarPathIndex")
    for i, e in enumerate(sorted(sites, key=lambda x: x.bb)):
        producers = c06._producers_before(fn, evs, e.bb)
        ok = bool(producers) and all(p.kind == "EXPR" and p.callee.name == "generate_expression_instructions_casting"
                                     for p in producers)
        target_ok = False
        for p in producers:
            if len(p.args) > 2:
                txt = str(p.args[2])
                target_ok = "PercentInteger" in txt and "BuiltIn" in txt
        ctx.decide(ok and target_ok, rule, "%s:index#%d-cast-to-integer" % (rule, i), "%s:%s" % (fn.file, e.line),
                   "index expression emitted through the casting emitter with target INTEGER",
                   "an array index reaches VarPathIndex without conversion to INTEGER (producers: %s)"
                   % [p.show() for p in producers])
    ctx.require(rule, 1)


EXPECT_Q = {"BangSingle": "VSingle", "HashDouble": "VDouble", "DollarString": "VString",
            "PercentInteger": "VInteger", "AmpersandLong": "VLong"}
EXPECT_ELEM = {"Single": "VSingle", "Double": "VDouble", "FixedLengthString": "VString",
               "Integer": "VInteger", "Long": "VLong", "UserDefined": "VUserDefined"}


def r4_allocation(ctx, rule="C04.R4"):
    prog = ctx.prog
    T = ot.OpTables(prog)
    q2t = T.qualifier_tags()
    for q, want in EXPECT_Q.items():
        ctx.decide(q2t.get(q) == want, rule, "%s:allocate_built_in:%s" % (rule, q), "allocation.rs", want,
                   "allocate_built_in(%s) yields %s" % (q, q2t.get(q)))

    def one(name):
        fs = [f for f in prog.fns.values() if f.name == name and "handlers::allocation" in f.id]
        if len(fs) != 1:
            raise CheckError("anchor allocation::%s" % name)
        return fs[0]
    eng = T.eng
    ael = one("allocate_element_type")
    ET = [a for a in prog.adts if a.endswith("::ElementType") and a.startswith("rusty_parser")]
    if len(ET) != 1:
        raise CheckError("ElementType ADT")
    for v in prog.variants(ET[0]):
        rs = eng.summary(ael, (tf.Ref(eng.make(ET[0], v)), tf.TOP))
        got = {tf.deref(x)[2] if tf.deref(x)[0] == "tag" else "?" for x in rs}
        ctx.decide(got == {EXPECT_ELEM.get(v)}, rule, "%s:allocate_element_type:%s" % (rule, v), ael.loc,
                   str(EXPECT_ELEM.get(v)), "a TYPE element declared %s is allocated as %s" % (v, sorted(got)))
    aae = one("allocate_array_element")
    XT = "rusty_parser::core::expression_type::ExpressionType"
    for q, want in EXPECT_Q.items():
        rs = eng.summary(aae, (tf.Ref(eng.make(XT, "BuiltIn", {0: tf.Tag(ot.TQ, q)})), tf.TOP))
        got = {tf.deref(x)[2] if tf.deref(x)[0] == "tag" else "?" for x in rs}
        ctx.decide(got == {want}, rule, "%s:allocate_array_element:%s" % (rule, q), aae.loc, want,
                   "an array of %s elements is allocated with %s elements" % (q, sorted(got)))
    rs = eng.summary(aae, (tf.Ref(eng.make(XT, "FixedLengthString")), tf.TOP))
    got = {tf.deref(x)[2] if tf.deref(x)[0] == "tag" else "?" for x in rs}
    ctx.decide(got == {"VString"}, rule, rule + ":allocate_array_element:FixedLengthString", aae.loc, "VString",
               "STRING * n array elements allocated as %s" % sorted(got))
    # declared length reaches allocate_fixed_length_string
    for f, variant in ((ael, "FixedLengthString"), (aae, "FixedLengthString")):
        pv = mir.Prov(f.body)
        ok = False
        for b, t in f.body.calls():
            if mir.callee_path(t).split("::")[-1] == "allocate_fixed_length_string":
                o = mir.strip_all(pv.of_operand(t["args"][0]))
                s = mir.short_origin(o)
                ok = ok or ("arg0" in s)
        ctx.decide(ok, rule, "%s:%s:declared-length" % (rule, f.name), f.loc,
                   "allocate_fixed_length_string(len of the declaration)",
                   "%s allocates a fixed-length string with a length not taken from the declaration" % f.name)
    afl = one("allocate_fixed_length_string")
    pv = mir.Prov(afl.body)
    rep = [t for _b, t in afl.body.calls() if mir.callee_path(t).split("::")[-1] == "repeat"]
    ok = bool(rep) and mir.strip_all(pv.of_operand(rep[0]["args"][1])) == ("param", 0)
    ctx.decide(ok, rule, rule + ":fixed-length-string:len-characters", afl.loc, '" ".repeat(len)',
               "allocate_fixed_length_string no longer builds a string of exactly len characters")
    ctx.require(rule, 5 + 6 + 6 + 3)


def r5_bounds_reported(ctx, rule="C04.R5"):
    prog = ctx.prog
    for mod, idx in (("lbound", 0), ("ubound", 1)):
        fs = [f for f in prog.fns.values() if ("built_ins::%s::run" % mod) in f.id and f.kind == "fn"]
        if len(fs) != 1:
            raise CheckError("anchor built_ins::%s::run" % mod)
        f = fs[0]
        pv = mir.Prov(f.body)
        fields = set()
        for blk in f.body.blocks:
            for s in blk["s"]:
                if s["k"] == "assign" and s["r"]["k"] == "agg" and s["r"].get("variant") == "VInteger" and s["r"]["ops"]:
                    o = mir.strip_all(pv.of_operand(s["r"]["ops"][0]))
                    while o[0] in ("deref", "ref"):
                        o = o[1]
                    if o[0] == "field":
                        fields.add(o[2])
        ctx.decide(fields == {str(idx)}, rule, "%s:%s" % (rule, mod.upper()), f.loc,
                   "returns field %d of get_dimension_bounds" % idx,
                   "%s returns field %s of the declared bounds (expected %d)" % (mod.upper(), sorted(fields), idx))
    gdb = ctx.anchor_method("VArray", "get_dimension_bounds")
    pv = mir.Prov(gdb.body)
    ok = any(mir.callee_path(t).split("::")[-1] == "get" and common.receiver_field(pv, t) == "dimensions"
             for _b, t in gdb.body.calls())
    ctx.decide(ok, rule, rule + ":bounds-from-dimensions", gdb.loc, "reads self.dimensions",
               "get_dimension_bounds no longer reads the declared dimensions")
    ctx.require(rule, 3)


def _on_cycle(body, b):
    return b in {x for s2 in body.succ(b) for x in body.reachable(s2)}


def loop_carried_product(body, M):
    """Is local M updated inside a loop by M := M * (..)?"""
    pv = mir.Prov(body)
    for b, blk in enumerate(body.blocks):
        if blk.get("c") or not _on_cycle(body, b):
            continue
        for st in blk["s"]:
            if st["k"] != "assign" or st["p"] != [M, []]:
                continue
            o = pv._of_rvalue(st["r"], 0)
            while o[0] in ("field", "cast") and isinstance(o[1], mir.Origin):
                if o[0] == "field" and o[1][0] == "bin":
                    o = o[1]
                    break
                o = o[1]
            if o[0] == "bin" and o[1].startswith("Mul"):
                if mir.Origin(("local", M)) in (mir.strip_all(o[2]), mir.strip_all(o[3])):
                    return True
    return False


def r6_stride_is_running_product(ctx, rule="C04.R6"):
    """In abs_index the factor applied to (index - lbound) is a loop-carried product of the
    dimension sizes (necessary for distinct tuples to map to distinct elements when there are three
    or more dimensions)."""
    prog = ctx.prog
    _PROG[0] = prog
    fn = ctx.anchor_method("VArray", "abs_index")
    body = fn.body
    pv = mir.Prov(body)
    strides = set()
    for b, blk in enumerate(body.blocks):
        if blk.get("c") or not _on_cycle(body, b):
            continue
        for st in blk["s"]:
            if st["k"] == "assign" and st["r"]["k"] == "bin" and st["r"]["op"].startswith("Mul"):
                a = pv.of_operand(st["r"]["a"])
                c = pv.of_operand(st["r"]["b"])
                ra, rc = _role_expr(a), _role_expr(c)
                if ra == "offset" and mir.strip_all(c)[0] == "local":
                    strides.add(mir.strip_all(c)[1])
                if rc == "offset" and mir.strip_all(a)[0] == "local":
                    strides.add(mir.strip_all(a)[1])
    ok = bool(strides) and all(loop_carried_product(body, m) for m in strides)
    ctx.decide(ok, rule, rule + ":abs_index", fn.loc,
               "offset * stride, with stride := stride * size inside the loop",
               "the factor applied to (index - lbound) in abs_index is not a running product of the "
               "dimension sizes (stride locals %s): with three or more dimensions different index tuples "
               "map to the same element" % sorted(strides))
    ctx.require(rule, 1)


def _role_expr(o):
    """'offset' for (arg - lbound), however the subtraction is spelled (operator on values, `Sub::sub` on references)"""
    if _lin(o) == {"arg": 1, "lbound": -1}:
        return "offset"
    return None


TYPE_ENUMS = ("ExpressionType", "DimType", "ParamType", "ElementType")
KIND = {"Integer": "BuiltIn", "Long": "BuiltIn", "Single": "BuiltIn", "Double": "BuiltIn"}


def _constructed_kinds(prog, fn, blocks, depth=0):
    """Kinds of the type-describing values built in `blocks` of fn: aggregates, and one level of
    constructor helpers returning such a type (DimType::fixed_length_string)."""
    out = set()
    body = fn.body
    for b in blocks:
        blk = body.blocks[b]
        for st in blk["s"]:
            r = st.get("r", {})
            if r.get("k") == "agg" and r.get("a") == "adt" and r["adt"].split("::")[-1] in TYPE_ENUMS:
                out.add(KIND.get(r.get("variant"), r.get("variant")))
        t = blk["t"]
        if t["k"] == "call" and depth == 0:
            g = prog.fns.get(mir.callee_of(t))
            if g is not None and g.kind != "const" and g.body is not None and not common.is_derived(g):
                rty = g.body.locals[0]["ty"].split("<")[0].split("::")[-1]
                if rty in TYPE_ENUMS and g.name not in ("clone", "expression_type"):
                    out |= _constructed_kinds(prog, g, [x for x in range(g.body.nblocks) if not g.body.is_cleanup(x)], 1)
    return out


def r7_kind_preserving_conversions(ctx, rule="C04.R7"):
    """Where a function matches on a type-describing enum (ExpressionType, DimType, ParamType,
    ElementType) and builds another type-describing value in the arm, the value built has the kind
    of the arm: STRING * n stays fixed-length (with its length), a user-defined type stays
    user-defined, a built-in stays built-in.  (REDIM without AS, DIM conversion, parameter and
    element typing all go through such matches.)"""
    prog = ctx.prog
    n = 0
    for fn in sorted(prog.fns.values(), key=lambda f: f.id):
        if fn.body is None or fn.kind == "const" or fn.crate not in ("rusty_linter", "rusty_parser", "rusty_basic"):
            continue
        if common.is_derived(fn):
            continue
        sws = [s for s in mir.enum_switches(prog, fn.body) if s.adt.split("::")[-1] in TYPE_ENUMS]
        if not sws:
            continue
        regions = {}
        for sw in sws:
            for v, tgt in sw.arms.items():
                regions[(sw.bb, v)] = mir.arm_region(fn.body, sw.bb, tgt)
        for sw in sws:
            for v in sorted(sw.arms):
                region = set(regions[(sw.bb, v)])
                # arms of nested type matches are judged on their own
                for (bb2, v2), r2 in regions.items():
                    if bb2 != sw.bb and bb2 in region:
                        region -= r2
                kinds = _constructed_kinds(prog, fn, region)
                if not kinds:
                    continue
                n += 1
                want = KIND.get(v, v)
                owner = fn.path.split("::", 1)[1]
                ctx.decide(kinds == {want}, rule, "%s:%s:%s::%s" % (rule, owner, sw.adt.split("::")[-1], v), fn.loc,
                           "builds a %s type" % want,
                           "the arm for %s::%s builds a type of kind %s: a %s declaration is converted into "
                           "another kind of type (a STRING * n element that stops being fixed-length, a record "
                           "that becomes a scalar)" % (sw.adt.split("::")[-1], v, sorted(kinds), want))
    ctx.analysed_units(rule, conversions=n)
    ctx.require(rule, 18)


def r8_casting_emitter(ctx, rule="C04.R8"):
    """generate_expression_instructions_casting is the one place that converts a value to the type
    of its target (R1 / C06.R2 accept it by name).  Its shape is checked: whenever the types differ,
    a built-in target gets Cast(q) and a STRING * n target gets FixLength(n) on every path of the
    arm - no further condition (such as `the source is a fixed-length string too`) may skip it."""
    prog = ctx.prog
    f = ctx.anchor_method("InstructionGenerator", "generate_expression_instructions_casting")
    sws = [s for s in mir.enum_switches(prog, f.body) if s.adt.endswith("::ExpressionType")]
    hops = 0
    while not sws and hops < 2:
        # a wrapper that hands its arguments on to the function that does the work
        nxt = [prog.fns.get(t.get("res") or mir.callee_of(t)) for _b, t in f.body.calls()]
        nxt = [g for g in nxt if g is not None and g.file == f.file and emit.is_generator_fn(g) and g.id != f.id]
        if len(nxt) != 1:
            break
        f = nxt[0]
        sws = [s for s in mir.enum_switches(prog, f.body) if s.adt.endswith("::ExpressionType")]
        hops += 1
    evs = emit.events(prog, f)
    if not sws:
        raise CheckError("casting emitter: no match over the target ExpressionType")
    sw = max(sws, key=lambda s: len(s.arms))
    body = f.body
    exits = set(body.exits())
    for variant, instr in (("BuiltIn", "Cast"), ("FixedLengthString", "FixLength")):
        # one `match`, or a chain of `if let` (one switch per variant)
        tgt = next((s2.arms[variant] for s2 in sorted(sws, key=lambda s2: -len(s2.arms)) if variant in s2.arms), None)
        if tgt is None:
            ctx.violation(rule, "%s:%s-arm" % (rule, variant), f.loc,
                          "the casting emitter has no arm for a %s target" % variant, {})
            continue
        through = {b for b, e in evs.items() if e.kind == "push" and e.instr == instr}
        ok = bool(through) and body.every_path_passes(tgt, exits, through)
        ctx.decide(ok, rule, "%s:%s-target-always-converted" % (rule, variant), f.loc,
                   "every path of the arm pushes %s" % instr,
                   "for a %s target some path of the casting emitter pushes no %s: the value reaches the "
                   "variable unconverted (a STRING * 8 value stored in a STRING * 3 variable keeps 8 characters)"
                   % (variant, instr))
    # the guard in front of the match is the inequality of the two types and nothing else
    pv = mir.Prov(body)
    ok_guard = False
    for b in range(body.nblocks):
        t = body.term(b)
        if t["k"] == "switch" and body.dominates(b, sw.bb) and t.get("ty") == "bool":
            o = mir.strip_all(pv.of_operand(t["o"]))
            if o[0] == "call" and o[1].split("::")[-1] in ("ne", "eq"):
                ok_guard = True
    ctx.decide(ok_guard, rule, rule + ":guard-is-type-inequality", f.loc, "guarded by expression_type != target_type",
               "the conversion is no longer guarded by the comparison of the two types")
    ctx.require(rule, 3)


BY_REF_FORMS = ("Variable", "ArrayElement", "Property")


def r9_write_back_fixes_length_for_every_form(ctx, rule="C04.R9"):
    """`a STRING * n ... always holds exactly n characters, including through a by-reference
    parameter`: after a call the callee's value is written back into the argument.  The helper that
    emits FixLength before that store decides on the TYPE of the argument; it must not also depend
    on the syntactic form of the argument in a way that leaves out one of the three by-reference
    forms (plain variable, array element, record field).  For each form the FixLength push must be
    reachable in the helper's CFG when every `match` on the argument expression takes that form's
    arm (matches on anything else are left free)."""
    prog = ctx.prog
    # the write-back emitter is the generator function that emits DequeueFromReturnStack; the
    # FixLength decision is made in it or in a helper it calls between the dequeue and the store
    gs = [x for x in emit.generator_fns(prog)
          if any(e.kind == "push" and e.instr == "DequeueFromReturnStack" for e in emit.events(prog, x).values())]
    if len(gs) != 1:
        raise CheckError("%s: expected one emitter of DequeueFromReturnStack, found %d" % (rule, len(gs)))
    g = gs[0]
    gevs = emit.events(prog, g)
    cands = [g] + [e.callee for e in gevs.values() if e.kind == "gen" and e.callee is not None]
    fs = [x for x in cands if any(e.kind == "push" and e.instr == "FixLength" for e in emit.events(prog, x).values())]
    if len(fs) != 1:
        raise CheckError("%s: the by-reference write-back emits FixLength in %d places" % (rule, len(fs)))
    f = fs[0]
    body = f.body
    evs = emit.events(prog, f)
    pushes = {b for b, e in evs.items() if e.kind == "push" and e.instr == "FixLength"}
    pv = mir.Prov(body)
    sws = {}
    for sw in mir.enum_switches(prog, body):
        if sw.adt.endswith("expr::types::Expression"):
            o = mir.strip_all(pv.of_place(sw.place))
            while o[0] in ("field", "downcast", "index"):
                o = mir.strip_all(o[1])
            if o[0] in ("param", "call"):
                sws[sw.bb] = sw
    for form in BY_REF_FORMS:
        seen = set()
        todo = [0]
        while todo:
            b = todo.pop()
            if b in seen or body.is_cleanup(b):
                continue
            seen.add(b)
            if b in sws:
                sw = sws[b]
                nxt = sw.arms.get(form, sw.otherwise)
                todo.extend([nxt] if nxt is not None else [])
            else:
                todo.extend(body.succ(b))
        ctx.decide(bool(pushes & seen), rule, "%s:%s" % (rule, form), f.loc,
                   "FixLength is emitted for a by-reference argument of the form %s when its type is STRING * n" % form,
                   "%s never emits FixLength when the by-reference argument is an "
                   "Expression::%s: after a call (or INPUT / READ) a STRING * n %s keeps whatever length "
                   "the callee left in it" % (f.name, form, {"Variable": "variable", "ArrayElement": "array element",
                                                              "Property": "record field"}[form]))
    # the FixLength decision lies between the dequeue and the store
    deq = [b for b, e in gevs.items() if e.kind == "push" and e.instr == "DequeueFromReturnStack"]
    fix = [b for b, e in gevs.items() if (e.kind == "gen" and e.callee is f) or (f is g and e.kind == "push" and e.instr == "FixLength")]
    stores = [b for b, t in g.body.calls() if mir.callee_path(t).split("::")[-1] == "generate_store_instructions"]
    if f is g:
        ok = bool(stores) and bool(deq) and all(any(g.body.dominates(d, st) for d in deq) for st in stores) \
            and all(any(st in g.body.reachable(x) for st in stores) for x in fix)
    else:
        ok = bool(fix) and bool(stores) and all(any(g.body.dominates(c, st) for c in fix) for st in stores)
    ctx.decide(ok, rule, rule + ":applied-before-store", g.loc, "the FixLength decision precedes the write-back store",
               "%s stores the dequeued value without the FixLength decision in front of the store" % g.name)
    ctx.require(rule, 4)


def _all_origins(body, op, depth=0):
    """origins of an operand, one per definition when the local is assigned on several paths (match arms)"""
    pv = mir.Prov(body)
    o = pv.of_operand(op)
    so = mir.strip_all(o)
    if so[0] != "local" or depth > 3:
        return [o]
    out = []
    for b, i, st in body.defs().get(so[1], []):
        if body.is_cleanup(b):
            continue
        if i == "T":
            out.append(pv._of_call(st, b, 0))
        elif st["r"].get("k") == "use":
            out.extend(_all_origins(body, st["r"]["o"], depth + 1))
        else:
            out.append(pv._of_rvalue(st["r"], 0))
    return out or [o]


def r11_property_type_is_the_declared_element_type(ctx, rule="C04.R11"):
    """`a fixed-length string stays exactly its declared length however it was assigned`: the generator
    decides from the static type of the target whether to emit FixLength (C04.R8 / R9), and for a record
    field that type is attached by the checker when it builds the Property node.  It must be the type the
    TYPE declares for the element - `expression_type()` of the ElementType, or the type copied from the
    node being rewritten - never a type made from the suffix the programmer wrote (`c.Suit$` on a
    STRING * 4 field would be a plain STRING: no FixLength, the field holds 17 characters)."""
    prog = ctx.prog
    n = 0
    for f in sorted(prog.fns.values(), key=lambda f: f.id):
        if f.crate != "rusty_linter" or f.body is None:
            continue
        body = f.body
        for b, blk in enumerate(body.blocks):
            if body.is_cleanup(b):
                continue
            for st in blk["s"]:
                r = st.get("r", {})
                if not (st["k"] == "assign" and r.get("k") == "agg" and r.get("a") == "adt"
                        and r["adt"].endswith("::Expression") and r["variant"] == "Property" and len(r["ops"]) == 3):
                    continue
                n += 1
                bad = []
                for o in _all_origins(body, r["ops"][2]):
                    so = mir.strip_all(o)
                    from_element = so[0] == "call" and so[1].split("::")[-1] == "expression_type" and so[2] and any(
                        "ElementType" in body.locals[l]["ty"] for l in _locals_of(body, so[2][0]))
                    copied = so[0] == "field" and mir.origin_mentions(so, lambda x: x[0] == "param")
                    if not (from_element or copied):
                        bad.append(mir.short_origin(so))
                name = f.path.split("::", 1)[1]
                k = sum(1 for x in ctx.obs if x.key.startswith("%s:%s" % (rule, name)))
                ctx.decide(not bad, rule, "%s:%s%s" % (rule, name, "#%d" % k if k else ""), "%s:%s" % (f.file, st.get("ln")),
                           "the type of the Property node is the declared type of the element",
                           "%s builds a Property node whose type is %s, not the type the TYPE declares for the element: the "
                           "generator picks FixLength / Cast from this type, so a STRING * n field referenced as `x.f$` is "
                           "stored like a plain STRING and holds a value of any length" % (name, ", ".join(bad)))
    # the same for Variable and ArrayElement nodes: the type is the declared one from the name table
    # (`var_info.expression_type`, for an element the element type of the declared array), handed in / copied
    # from the node being rewritten, or - for a variable that has no declaration (an implicit variable, the
    # result variable of a function) - BuiltIn(q) of the very qualifier the node's name is built with
    for f in sorted(prog.fns.values(), key=lambda f: f.id):
        if f.crate != "rusty_linter" or f.body is None or "converter" not in f.id:
            continue
        body = f.body
        pv = mir.Prov(body)
        for b, blk in enumerate(body.blocks):
            if body.is_cleanup(b):
                continue
            for st in blk["s"]:
                r = st.get("r", {})
                if not (st["k"] == "assign" and r.get("k") == "agg" and r.get("a") == "adt"
                        and r["adt"].endswith("::Expression") and r["variant"] in ("Variable", "ArrayElement") and len(r["ops"]) >= 2):
                    continue
                n += 1
                bad = []
                name_o = str(pv.of_operand(r["ops"][0]))
                # does the function have a declaration at hand (a VariableInfo)?  Then only its type will do
                has_decl = any(isinstance(e, dict) and e.get("n") in ("var_info", "expression_type")
                               for blk2 in body.blocks if not blk2.get("c") for st2 in blk2["s"] if st2["k"] == "assign"
                               for pl2 in ([st2["r"].get("p")] if st2["r"].get("p") else []) +
                               ([mir.op_place(st2["r"]["o"])] if st2["r"].get("o") and mir.op_place(st2["r"]["o"]) else [])
                               for e in pl2[1])
                for o in _all_origins(body, r["ops"][-1]):
                    so = mir.strip_all(o)
                    declared = _is_declared_type(so)
                    handed = so[0] == "param" or (so[0] == "field" and mir.origin_mentions(so, lambda z: z[0] == "param"))
                    own_q = False
                    if so[0] == "agg" and (so[2] or "").endswith("ExpressionType::BuiltIn") and so[3]:
                        q = str(mir.strip_all(so[3][0]))
                        # the qualifier the name carries: the same origin (or the qualifier *of* the name)
                        inner = q[len("expect(qualifier(&"):] if q.startswith("expect(qualifier(&") else q
                        own_q = q in name_o or any(part and part in name_o for part in (inner.split(")")[0] + ")", inner.split(",")[0]))
                    if not (declared or handed or (own_q and not has_decl)):
                        bad.append(mir.short_origin(so))
                name = f.path.split("::", 1)[1]
                k = sum(1 for x in ctx.obs if x.key.startswith("%s:%s" % (rule, name)))
                ctx.decide(not bad, rule, "%s:%s%s" % (rule, name, "#%d" % k if k else ""), "%s:%s" % (f.file, st.get("ln")),
                           "the type of the %s node is the declared type (or BuiltIn of the name's own qualifier)" % r["variant"],
                           "%s builds a %s node whose type is %s: not the declared type of the variable, nor the qualifier its own "
                           "name carries - the generator converts and fixes lengths by this type" % (name, r["variant"], ", ".join(bad)))
    ctx.analysed_units(rule, property_nodes_built=n)
    ctx.require(rule, 5)


def _is_declared_type(o):
    """the origin is the `expression_type` field of a declaration, or a part of it (the element type of a
    declared array), reached through clones / unwraps only - not something computed from it"""
    for _ in range(12):
        o = mir.strip_all(o)
        if o[0] == "field":
            if o[2] == "expression_type":
                return True
            o = o[1]
        elif o[0] == "downcast":
            o = o[1]
        elif o[0] == "call" and o[1].split("::")[-1] in ("unwrap", "clone", "expect", "as_ref", "deref", "cloned") and o[2]:
            o = o[2][0]
        else:
            return False
    return False


def _locals_of(body, o):
    """locals whose value the origin is (through refs), for a look at their declared type"""
    out = []
    so = mir.strip_all(o)
    if so[0] == "param":
        out.append(so[1] + 1)
    elif so[0] == "local":
        out.append(so[1])
    return out


def r12_a_store_pops_the_path_it_built(ctx, rule="C04.R12"):
    """`(i1..in) -> element is a bijection ... a store reaches the element it names`: CopyAToVarPath stores A
    into the variable path on top of the VM's path stack and pops it.  The path it consumes is built right in
    front of it, by the same generator function on the same emission path (VarPathName and what follows, or the
    path emitter): a bare CopyAToVarPath relies on a path that some earlier code left on the stack, and with two
    such paths pending (two subscripted by-reference arguments) the stack hands them back in the opposite order
    to the values, so each value is stored into the other argument's element."""
    prog = ctx.prog
    n = 0
    for f in sorted(emit.generator_fns(prog), key=lambda x: x.id):
        evs = emit.events(prog, f)
        if not any(e.kind == "push" and e.instr == "CopyAToVarPath" for e in evs.values()):
            continue
        bad = None
        for seq in emit.linear_paths(f.body, evs):
            depth = 0
            for e in seq:
                if e.kind == "push" and e.instr == "VarPathName":
                    depth += 1
                elif e.kind == "gen" and e.callee is not None and e.callee.name == "generate_path_instructions":
                    depth += 1
                elif e.kind == "push" and e.instr in ("CopyAToVarPath", "PopVarPath", "PushUnnamedByRef"):
                    if depth <= 0 and e.instr == "CopyAToVarPath":
                        bad = e
                    depth -= 1
        n += 1
        ctx.decide(bad is None, rule, "%s:%s" % (rule, f.name), f.loc,
                   "every CopyAToVarPath follows a path built on the same emission path",
                   "%s emits CopyAToVarPath (line %s) without having built a variable path on that emission path: the store "
                   "goes to whatever path earlier code left on the VM's path stack; with two paths pending they come back in "
                   "the opposite order to the values (`SwapInt A(1), A(5)` stores each value into the other element)"
                   % (f.name, bad.line if bad else ""))
    ctx.analysed_units(rule, store_emitting_functions=n)
    ctx.require(rule, 2)


def run(ctx):
    common.install(ctx)
    c06.r2_store_routes(ctx, "C04.R1", strings_only=True)
    r2_abs_index(ctx)
    r3_index_cast(ctx)
    r4_allocation(ctx)
    r5_bounds_reported(ctx)
    r6_stride_is_running_product(ctx)
    r7_kind_preserving_conversions(ctx)
    r8_casting_emitter(ctx)
    r9_write_back_fixes_length_for_every_form(ctx)
    # an element handed to a SUB / FUNCTION is written back unconverted: the checker must demand the exact type
    from . import c12
    from .. import optables as ot
    c12.r4_by_ref_exact(ctx, ot.OpTables(ctx.prog), "C04.R10")
    r11_property_type_is_the_declared_element_type(ctx)
    r12_a_store_pops_the_path_it_built(ctx)
    # an array or record lives in the memory block of its activation (or of its STATIC procedure): the indices that
    # point to blocks stay right when a block is removed, or stores land in another procedure's array
    from . import c03
    c03.r1_index_stable(ctx, "C04.R13")
    # an element of a SHARED array read inside a procedure is the stored element only if the name resolves to the
    # array: the lookup falls back to the SHARED names exactly when its own lookup of that name and suffix misses
    from . import c13
    c13.r6_fallback_keyed_on_same_lookup(ctx, "C04.R14")
    # an array element, a record field or a STRING * n handed by reference gets back the value its parameter holds now:
    # a variable keeps its position in the callee's variable table however often it is assigned (shared with C03.R10)
    from . import c03
    c03.r10_indexed_map_insert(ctx, "C04.R15")
