"""C18 - files and handles (C18.R1-R6)."""
import re
from .. import mir
from ..core import CheckError
from . import common

LEVEL = "other"
EXPLANATION = (
    "Protocol guards of the file layer: (R1) in FileManager::open every insertion into the handle "
    "map is dominated by a contains_key test on the same handle whose true edge returns "
    "FileAlreadyOpen; (R2) every acquisition of a file's reader/writer goes through "
    "try_get_file_info_input/output and its Result is propagated, never unwrapped; (R3) close removes "
    "the entry, close_all clears the map; (R4) io::Error NotFound/UnexpectedEof map to "
    "FileNotFound/InputPastEndOfFile and the readers return UnexpectedEof behind their eof() guard; "
    "(R5) console and file forms of INPUT / LINE INPUT call the same Input method; (R6) per open mode: "
    "INPUT never creates, APPEND appends and never truncates, OUTPUT creates; (R7) GET decodes every "
    "FIELD list from the start of the record; (R8) the predicates INPUT / LINE INPUT skip and stop "
    "with are tabulated at the separator characters; (R9) PUT and GET seek to an offset computed from "
    "the record number and the handle's record length only; (R10) GET accepts a short record while PUT does not pad; (R11) the text readers decode the collected bytes as a whole - no character cast from a single byte is pushed into the string they return (PRINT # writes UTF-8 bytes)."
    " (R15) where the checker of a built-in statement walks an argument list of any length, its run() walks it too (CLOSE #1, #2 closes both)."
    " (R16) PUT, GET, CVD and MKD$ convert between strings and bytes through the VM's byte-per-character codec only and never touch the UTF-8 bytes of a string."
    " (R17) the record number PUT / GET hand to put_record / get_record is made by a conversion whose every numeric cast is the LONG-range cast (QBNumberCast<i64>)."
    " (R18) every path of GET / PUT that ends in success passes through get_record / put_record, where the file mode is checked: no shortcut returns Ok before it.")
NOT_DECIDED = ["read-back equality of file contents, exactness of EOF, record contents (value-level)"]

RE = "rusty_basic::interpreter::error::RuntimeError"


def r1_open_guard(ctx, rule="C18.R1"):
    prog = ctx.prog
    fn = ctx.anchor_method("FileManager", "open")
    body = fn.body
    pv = mir.Prov(body)
    guard_bb = None
    for b, t in body.calls():
        if mir.callee_path(t).split("::")[-1] == "contains_key" and common.receiver_field(pv, t) == "handle_map":
            o = mir.strip_refs(pv.of_operand(t["args"][1]))
            if o == ("param", 1):
                guard_bb = b
    ctx.decide(guard_bb is not None, rule, rule + ":guard-present", fn.loc, "contains_key(&handle) on handle_map",
               "FileManager::open no longer tests whether the handle is already in use")
    if guard_bb is None:
        return
    # the true edge returns FileAlreadyOpen
    nxt = body.term(guard_bb)["t"]
    sw = body.term(nxt)
    err_ok = False
    false_target = None
    if sw["k"] == "switch":
        for val, tgt in sw["ts"]:
            if val == 0:
                false_target = tgt
        true_target = sw["else"] if false_target is not None else None
        if true_target is not None:
            region = body.reachable(true_target, avoid={false_target})
            aggs = [s["r"]["variant"] for bb in region for s in body.blocks[bb]["s"]
                    if s["k"] == "assign" and s["r"]["k"] == "agg" and s["r"].get("adt") == RE]
            reaches_insert = any(mir.callee_path(t).split("::")[-1] == "insert" for bb in region
                                 for t in [body.term(bb)] if t["k"] == "call")
            err_ok = aggs == ["FileAlreadyOpen"] and not reaches_insert
    ctx.decide(err_ok, rule, rule + ":in-use-returns-55", fn.loc, "handle in use -> Err(FileAlreadyOpen), no insert",
               "the `handle already open` branch of FileManager::open does not return FileAlreadyOpen before any insert")
    n = 0
    for b, t in body.calls():
        if mir.callee_path(t).split("::")[-1] == "insert" and common.receiver_field(pv, t) == "handle_map":
            n += 1
            dom = false_target is not None and body.dominates(false_target, b)
            ctx.decide(dom, rule, "%s:insert#%d-dominated-by-guard" % (rule, n), "%s:%s" % (fn.file, t.get("ln")),
                       "insert only on the not-in-use path",
                       "handle_map.insert at line %s is not dominated by the `handle not in use` edge" % t.get("ln"))
    ctx.require(rule, 6)


def r2_result_propagated(ctx, rule="C18.R2"):
    prog = ctx.prog
    n = 0
    for fn in sorted(prog.fns.values(), key=lambda f: f.id):
        if fn.crate != "rusty_basic" or fn.kind == "const":
            continue
        for b, t in fn.body.calls():
            name = mir.callee_path(t).split("::")[-1]
            if name not in ("try_get_file_info_input", "try_get_file_info_output", "try_get_file_info"):
                continue
            if "FileManager" not in mir.callee_path(t):
                continue
            n += 1
            d = t["d"][0]
            bad = None
            # follow the result local: a call to unwrap/expect on it (or on a move of it)
            locals_ = {d}
            for _ in range(4):
                for blk in fn.body.blocks:
                    for s in blk["s"]:
                        if s["k"] == "assign" and s["r"]["k"] == "use":
                            p = mir.op_place(s["r"]["o"])
                            if p is not None and p[0] in locals_ and not p[1] and not s["p"][1]:
                                locals_.add(s["p"][0])
            for b2, t2 in fn.body.calls():
                nm = mir.callee_path(t2).split("::")[-1]
                if nm in ("unwrap", "expect", "unwrap_unchecked") and t2["args"]:
                    p = mir.op_place(t2["args"][0])
                    if p is not None and p[0] in locals_:
                        bad = nm
            owner = prog.enclosing_fn(fn) or fn
            key = "%s:%s:%s" % (rule, owner.path.split("::", 1)[1], name)
            ctx.decide(bad is None, rule, key, "%s:%s" % (fn.file, t.get("ln")), "Result propagated",
                       "%s calls %s on the Result of %s: a closed / wrong-mode handle panics instead of "
                       "raising a file error" % (owner.path.split("::", 1)[1], bad, name))
    ctx.analysed_units(rule, acquisitions=n)
    ctx.require(rule, 8)


def r3_close(ctx, rule="C18.R3"):
    for name, method in (("close", "remove"), ("close_all", "clear")):
        fn = ctx.anchor_method("FileManager", name)
        pv = mir.Prov(fn.body)
        ok = any(mir.callee_path(t).split("::")[-1] == method and common.receiver_field(pv, t) == "handle_map"
                 for _b, t in fn.body.calls())
        ctx.decide(ok, rule, "%s:%s" % (rule, name), fn.loc, "handle_map.%s" % method,
                   "FileManager::%s no longer calls handle_map.%s: the handle stays in use" % (name, method))
    ctx.require(rule, 2)


def r4_error_mapping(ctx, rule="C18.R4"):
    prog = ctx.prog
    impls = [i for i in prog.impls.values() if i["self_ty"].endswith("RuntimeError")
             and (i.get("trait_ref") or "").endswith("std::convert::From<std::io::Error>>")]
    if len(impls) != 1:
        raise CheckError("impl From<io::Error> for RuntimeError")
    fn = prog.fns[impls[0]["items"][0]["id"]]
    # pair each ErrorKind compared with the variant built on the true edge
    pv = mir.Prov(fn.body)
    pairs = {}
    for b, t in fn.body.calls():
        if (t.get("cpath") or "") not in ("std::cmp::PartialEq::eq",):
            continue
        kinds = []
        for a in t["args"]:
            o = mir.strip_refs(pv.of_operand(a))
            txt = str(o)
            for k in ("NotFound", "UnexpectedEof"):
                if k in txt:
                    kinds.append(k)
            if o[0] == "promoted":
                body = fn.promoted[o[1]]
                for blk in body.blocks:
                    for s in blk["s"]:
                        if s["k"] == "assign" and s["r"]["k"] == "agg":
                            kinds.append(s["r"].get("variant"))
        nxt = fn.body.term(t["t"])
        if nxt["k"] == "switch" and kinds:
            false_t = [tg for v, tg in nxt["ts"] if v == 0]
            true_t = nxt["else"]
            region = fn.body.reachable(true_t, avoid=set(false_t))
            built = [s["r"]["variant"] for bb in sorted(region) for s in fn.body.blocks[bb]["s"]
                     if s["k"] == "assign" and s["r"]["k"] == "agg" and s["r"].get("adt") == RE]
            if built:
                pairs[kinds[0]] = built[0]
    # the same mapping spelled as a match on the kind: a switch on the discriminant of an ErrorKind
    for b, blk in enumerate(fn.body.blocks):
        t = blk["t"]
        if t["k"] != "switch":
            continue
        discr = [s["r"] for s in blk["s"] if s["k"] == "assign" and s["r"]["k"] == "discr"
                 and (s["r"].get("adt") or "").endswith("ErrorKind")]
        if not discr:
            continue
        adt = prog.adts.get(discr[-1]["adt"])
        if not adt:
            continue
        names = {v["discr"]: v["name"] for v in adt["variants"]}
        targets = [tg for _, tg in t["ts"]] + [t["else"]]
        for v, tg in t["ts"]:
            kind = names.get(v)
            if kind not in ("NotFound", "UnexpectedEof"):
                continue
            region = fn.body.reachable(tg, avoid=set(x for x in targets if x != tg))
            built = [s["r"]["variant"] for bb in sorted(region) for s in fn.body.blocks[bb]["s"]
                     if s["k"] == "assign" and s["r"]["k"] == "agg" and s["r"].get("adt") == RE]
            if built:
                pairs.setdefault(kind, built[0])
    ctx.decide(pairs.get("NotFound") == "FileNotFound", rule, rule + ":NotFound->FileNotFound", fn.loc,
               "io NotFound -> FileNotFound (53)", "io::ErrorKind::NotFound maps to %s" % pairs.get("NotFound"))
    ctx.decide(pairs.get("UnexpectedEof") == "InputPastEndOfFile", rule, rule + ":UnexpectedEof->InputPastEndOfFile",
               fn.loc, "io UnexpectedEof -> InputPastEndOfFile (62)",
               "io::ErrorKind::UnexpectedEof maps to %s" % pairs.get("UnexpectedEof"))
    # readers
    for name in ("input", "line_input"):
        fs = [f for f in prog.fns.values() if f.name == name and f.impl and "ReadInputSource" in f.impl["self_ty"]
              and (f.impl.get("trait_ref") or "").endswith("io::Input>")]
        if len(fs) != 1:
            raise CheckError("anchor ReadInputSource::%s" % name)
        f = fs[0]
        calls = [mir.callee_path(t).split("::")[-1] for g in [f] + prog.closures_of(f) for _b, t in g.body.calls()]
        eof_guard = "eof" in calls
        builds_eof = False
        for g in [f] + prog.closures_of(f):
            for body in [g.body] + g.promoted:
                for blk in body.blocks:
                    for s in blk["s"]:
                        if s["k"] == "assign":
                            txt = str(s["r"])
                            if "UnexpectedEof" in txt:
                                builds_eof = True
                    t = blk["t"]
                    if t["k"] == "call" and "UnexpectedEof" in str(t["args"]):
                        builds_eof = True
        ctx.decide(eof_guard and builds_eof, rule, "%s:reader:%s:eof-guard" % (rule, name), f.loc,
                   "eof() guard returning UnexpectedEof",
                   "ReadInputSource::%s no longer returns UnexpectedEof behind an eof() test" % name)
    ctx.require(rule, 4)


def _input_methods(prog, fn, depth=3):
    """Set of Input trait methods (input / line_input) called by fn, following local helpers."""
    out = set()
    seen = set()
    st = [(fn, 0)]
    while st:
        f, d = st.pop()
        if f.id in seen:
            continue
        seen.add(f.id)
        for g in [f] + prog.closures_of(f):
            for _b, t in g.body.calls():
                if (t.get("ctrait") or "").endswith("interpreter::io::Input"):
                    out.add((t.get("cpath") or "").split("::")[-1])
                c = prog.fns.get(mir.callee_of(t))
                if c is not None and c.file == fn.file and d < depth:
                    st.append((c, d + 1))
    return out


def r5_console_file_agree(ctx, rule="C18.R5"):
    prog = ctx.prog
    for mod in ("input", "line_input"):
        fs = [f for f in prog.fns.values() if ("built_ins::%s::" % mod) in f.id and f.kind == "fn"]
        if not fs:
            raise CheckError("built_ins::%s not found" % mod)
        # the function that branches on file_handle.is_valid()
        brancher = None
        for f in fs:
            if any(mir.callee_path(t).endswith("FileHandle::is_valid") for _b, t in f.body.calls()):
                brancher = f
        if brancher is None:
            raise CheckError("built_ins::%s: no is_valid() branch" % mod)
        body = brancher.body
        bb = [b for b, t in body.calls() if mir.callee_path(t).endswith("FileHandle::is_valid")][0]
        sw = body.term(body.term(bb)["t"])
        if sw["k"] != "switch":
            raise CheckError("built_ins::%s: is_valid() not branched on" % mod)
        false_t = [tg for v, tg in sw["ts"] if v == 0][0]
        true_t = sw["else"]
        sides = {}
        for side, start, avoid in (("file", true_t, false_t), ("console", false_t, true_t)):
            region = body.reachable(start, avoid={avoid})
            # stop at the join: blocks reachable from both are shared
            other = body.reachable(avoid, avoid={start})
            region = region - other
            methods = set()
            for b in region:
                t = body.term(b)
                if t["k"] != "call":
                    continue
                if (t.get("ctrait") or "").endswith("interpreter::io::Input"):
                    methods.add((t.get("cpath") or "").split("::")[-1])
                c = prog.fns.get(mir.callee_of(t))
                if c is not None and c.file == brancher.file:
                    methods |= _input_methods(prog, c)
            sides[side] = methods
        ctx.decide(sides["file"] == sides["console"] and len(sides["file"]) == 1, rule,
                   "%s:%s:same-splitter" % (rule, mod.upper()), brancher.loc,
                   "both forms call Input::%s" % "/".join(sorted(sides["file"])),
                   "%s: the file form reads with Input::%s but the console form with Input::%s: console and "
                   "file input split text differently" % (mod.upper().replace("_", " "), sorted(sides["file"]),
                                                        sorted(sides["console"])))
    # one generic reader type behind both
    aliases = [a for a in prog.adts.values() if a["path"].endswith("read_input::ReadInputSource")]
    ctx.decide(len(aliases) == 1, rule, rule + ":single-reader-type", "read_input.rs",
               "ReadInputSource<T> is the only Input implementation for console and files",
               "more than one reader type")
    impls = [i for i in prog.impls.values() if (i.get("trait") or "").endswith("interpreter::io::Input")
             and "test" not in i["id"]]
    ctx.decide(len(impls) == 1, rule, rule + ":single-Input-impl", "read_input.rs", "one impl of Input",
               "%d non-test impls of Input: console and files may split differently" % len(impls))
    ctx.require(rule, 4)


def r6_open_modes(ctx, rule="C18.R6"):
    prog = ctx.prog
    fn = ctx.anchor_method("FileManager", "open")
    sws = [s for s in mir.enum_switches(prog, fn.body) if s.adt.endswith("::FileMode")]
    if not sws:
        raise CheckError("open: no match over FileMode")
    sw = sws[0]
    want = {
        "Input": ({"open"}, {"create", "truncate", "append", "write"}),
        "Output": ({"create"}, {"append"}),
        "Append": ({"append"}, {"truncate"}),
        # a random-access file keeps its records over CLOSE and re-OPEN: it must not be emptied
        "Random": ({"read", "write"}, {"append", "truncate"}),
    }
    for mode, (need, forbid) in sorted(want.items()):
        tgt = sw.arms.get(mode, sw.otherwise)
        if tgt is None:
            raise CheckError("open: no arm for FileMode::%s" % mode)
        region = mir.arm_region(fn.body, sw.bb, tgt)
        calls = set()
        ctors = set()
        for _b, t in mir.region_calls(fn.body, region):
            cp = mir.callee_path(t)
            nm = cp.split("::")[-1]
            if "OpenOptions" in cp or cp.startswith("std::fs::File::"):
                # builder flags only count when set to true
                if "OpenOptions" in cp and nm in ("read", "write", "append", "truncate", "create", "create_new"):
                    k = t["args"][1].get("k") if len(t["args"]) > 1 else None
                    if k and k.get("int") == 1:
                        calls.add(nm)
                else:
                    calls.add(nm)
            if nm.startswith("new_") and "FileInfo" in cp:
                ctors.add(nm)
        ok = need <= calls and not (forbid & calls)
        ctx.decide(ok, rule, "%s:%s" % (rule, mode), fn.loc, "uses %s" % sorted(calls),
                   "OPEN FOR %s opens the file with %s (needs %s, must not use %s)"
                   % (mode.upper(), sorted(calls), sorted(need), sorted(forbid & calls)))
        wantc = {"Input": "new_input", "Output": "new_output", "Append": "new_output", "Random": "new_random"}[mode]
        ctx.decide(ctors == {wantc}, rule, "%s:%s:file-info" % (rule, mode), fn.loc, wantc,
                   "OPEN FOR %s registers the file as %s (expected %s): the handle gets the wrong mode"
                   % (mode.upper(), sorted(ctors), wantc))
    ctx.require(rule, 8)


def r7_record_layout(ctx, rule="C18.R7"):
    """GET decodes every FIELD list of the handle from the start of the record: the running offset is
    re-initialised to 0 inside the loop over the field lists, and advanced by each field's width."""
    prog = ctx.prog
    fs = [f for f in prog.fns.values() if "built_ins::get::run" in f.id and f.kind == "fn"]
    if len(fs) != 1:
        raise CheckError("anchor built_ins::get::run")
    f = fs[0]
    body = f.body

    def on_cycle(b):
        return b in {x for s2 in body.succ(b) for x in body.reachable(s2)}
    # the offset local: used as the start of the Range that slices the record bytes
    pv = mir.Prov(body)
    starts = set()
    for blk in body.blocks:
        for st in blk["s"]:
            if st["k"] == "assign" and st["r"]["k"] == "agg" and st["r"].get("adt", "").endswith("ops::range::Range") \
                    and st["r"]["ops"]:
                o = mir.strip_all(pv.of_operand(st["r"]["ops"][0]))
                if o[0] == "local":
                    starts.add(o[1])
    if len(starts) != 1:
        raise CheckError("GET: offset variable not recognised (%s)" % sorted(starts))
    S = starts.pop()
    zero_blocks = []
    adv = False
    for b, blk in enumerate(body.blocks):
        if blk.get("c"):
            continue
        for st in blk["s"]:
            if st["k"] == "assign" and st["p"] == [S, []]:
                k = st["r"].get("o", {}).get("k") if st["r"]["k"] == "use" else None
                if k and k.get("int") == 0:
                    zero_blocks.append(b)
                else:
                    o = pv._of_rvalue(st["r"], 0)
                    txt = mir.short_origin(o)
                    if "Add" in str(o) and "width" in str(o) or "Add" in str(o):
                        adv = True
    ctx.decide(len(zero_blocks) == 1 and on_cycle(zero_blocks[0]), rule, rule + ":GET:offset-restarts-per-field-list",
               f.loc, "offset := 0 inside the loop over field lists",
               "GET does not restart the record offset for each FIELD list (offset := 0 in blocks %s, on a loop: %s): "
               "the variables of a second FIELD statement are read from the wrong bytes"
               % (zero_blocks, [on_cycle(b) for b in zero_blocks]))
    ctx.decide(adv, rule, rule + ":GET:offset-advances-by-width", f.loc, "offset += width",
               "GET no longer advances the offset by each field's width")
    ctx.require(rule, 2)


def r8_separator_classes(ctx, rule="C18.R8"):
    """INPUT and LINE INPUT (file and console share ReadInputSource) split on separators: the
    predicates they hand to skip_while / read_until are tabulated at the separator characters.
    Skipping must never swallow a line end or a comma (a blank field or line would disappear);
    INPUT stops at comma, CR and LF; LINE INPUT stops at CR and LF only."""
    from .. import charpred
    prog = ctx.prog
    eng = charpred.engine(prog)
    CR, LF, COMMA, SPACE, A = 13, 10, 44, 32, 65
    n = 0
    for meth, stops, passes in (("input", (COMMA, CR, LF), (A,)), ("line_input", (CR, LF), (COMMA, A, SPACE))):
        fs = [f for f in prog.fns.values() if f.name == meth and "read_input" in f.path and f.impl
              and "Input" in (f.impl.get("trait_ref") or "")]
        if len(fs) != 1:
            raise CheckError("anchor <ReadInputSource as Input>::%s" % meth)
        fn = fs[0]
        seen_until = 0
        for b, t in fn.body.calls():
            name = mir.callee_path(t).split("::")[-1]
            if name not in ("skip_while", "read_until") or len(t["args"]) < 2:
                continue
            pred = charpred.pred_of_operand(prog, fn, t["args"][1])
            if pred is None:
                raise CheckError("%s: predicate of %s not recognised" % (meth, name))
            vals = {c: charpred.predicate_value(eng, prog, pred, c) for c in (CR, LF, COMMA, SPACE, A)}
            loc = "%s:%s" % (fn.file, t.get("ln"))
            n += 1
            if name == "skip_while":
                bad = sorted(repr(chr(c)) for c in (CR, LF, COMMA) if vals[c] != {0})
                ctx.decide(not bad, rule, "%s:%s:skip-keeps-separators" % (rule, meth), loc,
                           "the skipped class contains no separator",
                           "%s skips %s before reading a field: an empty field / blank line written with PRINT # "
                           "is swallowed and the following fields shift" % (meth, bad))
            else:
                seen_until += 1
                bad = sorted(repr(chr(c)) for c in stops if vals[c] != {1}) + \
                    sorted("not " + repr(chr(c)) for c in passes if vals[c] != {0})
                ctx.decide(not bad, rule, "%s:%s:stops-at-its-separators" % (rule, meth), loc,
                           "stops exactly at %s" % [chr(c) for c in stops],
                           "%s reads a field up to a class that differs at %s" % (meth, bad))
        if not seen_until:
            raise CheckError("%s: no read_until call" % meth)
    ctx.analysed_units(rule, predicates=n)
    ctx.require(rule, 3)


def r9_put_get_same_offset(ctx, rule="C18.R9"):
    """`a record PUT is what GET of the same record number returns`: FileInfo::put_record and
    get_record position the file with Seek::seek(SeekFrom::Start(offset)); in both the offset is
    computed from the record number parameter and the handle's rec_len field and from nothing else
    (not, say, the length of the buffer being written)."""
    prog = ctx.prog
    n = 0
    shapes = {}
    for name in ("put_record", "get_record"):
        f = prog.method("FileInfo", name)
        if f is None:
            raise CheckError("anchor FileInfo::%s" % name)
        pv = mir.Prov(f.body)
        seeks = [(b, t) for b, t in f.body.calls() if (t.get("cpath") or "").endswith("Seek::seek")]
        if not seeks:
            # the positioning may live in a private helper shared by PUT and GET: the helper must
            # receive this function's own (self, record number) and is then judged in their place
            for b, t in f.body.calls():
                g = prog.fns.get(mir.callee_of(t))
                if g is None or g.crate != "rusty_basic" or g.file != f.file:
                    continue
                gs = [(b2, t2) for b2, t2 in g.body.calls() if (t2.get("cpath") or "").endswith("Seek::seek")]
                if len(gs) == 1:
                    passed = [mir.strip_all(pv.of_operand(a)) for a in t["args"]]
                    if passed[:2] == [("param", 0), ("param", 1)]:
                        pv = mir.Prov(g.body)
                        seeks = gs
                    break
        if len(seeks) != 1:
            raise CheckError("FileInfo::%s: expected one seek, found %d" % (name, len(seeks)))
        o = pv.of_operand(seeks[0][1]["args"][1])
        fields = set()
        params = set()
        calls = set()

        def walk(x):
            if isinstance(x, tuple):
                if x and x[0] == "field":
                    fields.add(x[2])
                if x and x[0] == "param":
                    params.add(x[1])
                if x and x[0] == "call":
                    calls.add(x[1].split("::")[-1])
                for y in x:
                    walk(y)
        walk(o)
        fields = {x for x in fields if not str(x).isdigit()}     # .0 of checked arithmetic
        shapes[name] = (sorted(fields), sorted(params), sorted(calls))
        n += 1
        ok = fields == {"rec_len"} and params == {0, 1} and not (calls - {"Start"})
        ctx.decide(ok, rule, "%s:%s:offset-from-record-number-and-rec_len" % (rule, name),
                   "%s:%s" % (f.file, seeks[0][1].get("ln")), "offset = f(record number, rec_len)",
                   "FileInfo::%s seeks to an offset computed from fields %s, parameters %s and calls %s: PUT and GET "
                   "of the same record number no longer address the same bytes whenever LEN differs from that "
                   "quantity" % (name, sorted(fields), sorted(params), sorted(calls)))
    ctx.decide(shapes["put_record"] == shapes["get_record"], rule, rule + ":put-get-agree", "rusty_basic/src/interpreter/io.rs",
               "both use %s" % (shapes["put_record"],),
               "put_record computes its offset from %s, get_record from %s" % (shapes["put_record"], shapes["get_record"]))
    ctx.require(rule, 3)


def r10_get_tolerates_short_record(ctx, rule="C18.R10"):
    """`a record PUT is what GET of the same record number returns`, writer / reader agreement on the
    LENGTH: put_record writes the bytes it is given (the FIELD widths, which may add up to less
    than the record length) without padding them to rec_len, so the last record of the file can be
    shorter than rec_len on disk.  As long as the writer does not pad, the reader must accept a short
    read (no read_exact, no comparison of the number of bytes read that ends in an error)."""
    prog = ctx.prog
    put = prog.method("FileInfo", "put_record")
    get = prog.method("FileInfo", "get_record")
    if put is None or get is None:
        raise CheckError("anchor FileInfo::put_record / get_record")
    pads = any((t.get("cpath") or "").split("::")[-1] in ("resize", "extend", "extend_from_slice", "set_len")
               for _b, t in put.body.calls())
    exact = [t.get("ln") for _b, t in get.body.calls() if (t.get("cpath") or "").split("::")[-1] == "read_exact"]
    reads = [t.get("ln") for _b, t in get.body.calls() if (t.get("cpath") or "").split("::")[-1] in ("read", "read_exact", "read_to_end")]
    if not reads:
        raise CheckError("%s: get_record does not read" % rule)
    ctx.decide(pads or not exact, rule, rule + ":get_record:accepts-short-record", get.loc,
               "the reader accepts fewer than rec_len bytes (the writer does not pad)",
               "get_record demands exactly rec_len bytes (read_exact, line %s) while put_record writes only the "
               "bytes of the FIELD list without padding: GET of the last record of a file whose FIELD widths add "
               "up to less than LEN fails with Input past end of file (62)" % exact)
    ctx.require(rule, 1)


def r11_text_is_decoded_as_it_was_encoded(ctx, rule="C18.R11"):
    """`read back unchanged`: PRINT # writes the bytes of the string (`as_bytes`: UTF-8).  The readers
    collect bytes and decode them as a whole; converting each byte to a character on its own
    (`byte as char`) and pushing that into the result re-encodes every byte above 127 as two bytes, so
    text with a non-ASCII character comes back longer than it was written.  In everything reachable
    from ReadInputSource's `input` / `line_input`: no String::push receives a character that was cast
    from a byte."""
    prog = ctx.prog
    roots = [f for f in prog.fns.values() if f.name in ("input", "line_input") and f.impl
             and "ReadInputSource" in f.impl["self_ty"] and (f.impl.get("trait_ref") or "").endswith("io::Input>")]
    if len(roots) != 2:
        raise CheckError("anchor ReadInputSource::input / line_input")
    reach = [prog.fns[i] for i in prog.reachable_from(roots) if i in prog.fns and prog.fns[i].crate == "rusty_basic"]
    n = 0
    casts_seen = 0
    for f in sorted(reach, key=lambda f: f.id):
        body = f.body
        cast_locals = {st["p"][0] for blk in body.blocks for st in blk["s"]
                       if st["k"] == "assign" and st["r"].get("k") == "cast" and st["r"].get("ty") == "char"
                       and not st["p"][1]}
        casts_seen += len(cast_locals)
        if not cast_locals:
            continue
        vs = set(cast_locals)
        changed = True
        while changed:
            changed = False
            for blk in body.blocks:
                for st in blk["s"]:
                    if st["k"] == "assign" and st["r"]["k"] == "use" and not st["p"][1] and st["p"][0] not in vs:
                        pl = mir.op_place(st["r"]["o"])
                        if pl is not None and pl[0] in vs:
                            vs.add(st["p"][0])
                            changed = True
        bad = None
        for b, t in body.calls():
            cp = t.get("cpath") or ""
            if cp.split("::")[-1] in ("push", "insert", "extend", "push_str") and "String" in cp:
                if any(mir.op_place(a) is not None and mir.op_place(a)[0] in vs for a in t["args"][1:]):
                    bad = t
        n += 1
        name = f.path.split("::", 1)[1]
        ctx.decide(bad is None, rule, "%s:%s" % (rule, name), f.loc,
                   "characters cast from bytes are only tested, not collected",
                   "%s pushes a character obtained by `byte as char` into the string it returns (line %s): every byte "
                   "above 127 is re-encoded as two bytes, so `caf\u00e9` written with PRINT # comes back from LINE INPUT # / "
                   "INPUT # one character longer" % (name, bad.get("ln") if bad else ""))
    ctx.analysed_units(rule, reader_functions=len(reach), functions_with_byte_to_char_casts=n)
    ctx.ok(rule, rule + ":readers-analysed", roots[0].loc, "%d functions reachable from the two readers, %d byte-to-character "
           "casts" % (len(reach), casts_seen))
    ctx.require(rule, 1)


def _len_of_field(o):
    o = mir.strip_all(o)
    if o[0] == "agg" and o[3]:
        for x in o[3]:
            r = _len_of_field(x)
            if r:
                return r
        return None
    if o[0] == "call" and o[1].split("::")[-1] == "len" and o[2]:
        r = mir.strip_all(o[2][0])
        if r[0] == "field":
            return (r[2], o[3])
    return None


def r13_recorded_index_exists(ctx, rule="C18.R13"):
    """A file's `current FIELD list` is remembered as an index into the vector of its FIELD lists (the
    reader hands the remembered value to `get` / `[]` on that vector).  Where the remembered value is the
    vector's length, it is the index of the list *about to be appended*: every path from taking the
    length to the end of the function must push onto the vector - a length taken after the push is one
    past the end, and PUT then finds no current list (Bad file mode on a correctly opened file)."""
    prog = ctx.prog
    fns = [f for f in prog.fns.values() if f.body is not None and f.crate == "rusty_basic"
           and (f.file or "").endswith("interpreter/io.rs")]
    if not fns:
        raise CheckError("no functions of interpreter/io.rs")
    pairs = set()
    for f in fns:
        pv = mir.Prov(f.body)
        for b, t in f.body.calls():
            if mir.callee_path(t).split("::")[-1] in ("get", "get_mut", "index", "index_mut") and len(t["args"]) >= 2:
                r = mir.strip_all(pv.of_operand(t["args"][0]))
                i = mir.strip_all(pv.of_operand(t["args"][1]))
                while i[0] == "downcast" or (i[0] == "field" and str(i[2]).isdigit()):
                    i = mir.strip_all(i[1])
                if r[0] == "field" and i[0] == "field" and isinstance(i[2], str) and not i[2].isdigit():
                    pairs.add((i[2], r[2]))
    if not pairs:
        raise CheckError("no remembered index into a vector found in interpreter/io.rs (anchor lost)")
    n = 0
    for f in sorted(fns, key=lambda x: x.id):
        body = f.body
        pv = mir.Prov(body)
        for b, blk in enumerate(body.blocks):
            if blk.get("c"):
                continue
            for st in blk["s"]:
                if st["k"] != "assign":
                    continue
                fld = [e.get("n") for e in st["p"][1] if isinstance(e, dict) and "f" in e]
                if not fld:
                    continue
                got = _len_of_field(pv._of_rvalue(st["r"], 0))
                if got is None or (fld[-1], got[0]) not in pairs:
                    continue
                vec, len_block = got
                n += 1
                pushes = set()
                for b2, t2 in body.calls():
                    if mir.callee_path(t2).split("::")[-1] in ("push", "push_back") and t2["args"]:
                        r = mir.strip_all(pv.of_operand(t2["args"][0]))
                        if r[0] == "field" and r[2] == vec:
                            pushes.add(b2)
                ok = bool(pushes) and body.every_path_passes(len_block, set(body.exits()), pushes) \
                    and not any(len_block in body.reachable(pb) for pb in pushes if pb != len_block)
                ctx.decide(ok, rule, "%s:%s:%s" % (rule, f.name, fld[-1]), f.loc,
                           "%s := %s.len() is followed by a push onto %s on every path" % (fld[-1], vec, vec),
                           "%s remembers %s.len() in %s, but no push onto %s follows on every path (or the length is "
                           "taken after the push): the remembered index is one past the last element, the reader's "
                           "lookup finds nothing" % (f.name, vec, fld[-1], vec))
    ctx.analysed_units(rule, index_pairs=sorted(pairs), stored_lengths=n)
    ctx.require(rule, 1)


def r14_field_list_fits_the_record(ctx, rule="C18.R14"):
    """`a record PUT is what GET of the same record number returns whatever other records were written`:
    PUT writes the bytes of the current FIELD list at (n-1)*rec_len, so a list wider than the record
    length overwrites the records that follow.  Necessary: before a FIELD list is recorded (the push onto
    field_lists), or before PUT writes, its width is compared with rec_len - on every path, in the
    recording function or in one of its callers up to the built-in."""
    prog = ctx.prog
    fns = [f for f in prog.fns.values() if f.body is not None and f.crate == "rusty_basic"
           and (f.file or "").endswith("interpreter/io.rs")]
    rec = None
    for f in fns:
        pv = mir.Prov(f.body)
        for b, t in f.body.calls():
            if mir.callee_path(t).split("::")[-1] == "push" and t["args"]:
                r = mir.strip_all(pv.of_operand(t["args"][0]))
                if r[0] == "field" and r[2] == "field_lists":
                    rec = (f, b)
    if rec is None:
        raise CheckError("%s: nothing pushes onto field_lists (anchor lost)" % rule)

    def guarded(f, site):
        """a branch on a comparison that mentions rec_len dominates the site"""
        body = f.body
        pv = mir.Prov(body)
        for sb in range(body.nblocks):
            t = body.term(sb)
            if t["k"] != "switch" or sb == site or not body.dominates(sb, site):
                continue
            p = mir.op_place(t["o"])
            if p is None:
                continue
            o = pv.of_place(p)
            if o[0] == "bin" and o[1] in ("Gt", "Lt", "Ge", "Le") and mir.origin_mentions(
                    o, lambda x: x[0] == "field" and len(x) > 2 and x[2] == "rec_len"):
                return True
        return False

    def chain_ok(f, site, depth=3):
        if guarded(f, site):
            return True
        if not depth:
            return False
        sites = [(g, gb) for g in prog.fns.values() if g.body is not None
                 for gb, gt in g.body.calls() if (gt.get("res") or mir.callee_of(gt)) == f.id]
        return bool(sites) and all(chain_ok(g, gb, depth - 1) for g, gb in sites)
    ok = chain_ok(*rec)
    if not ok:
        # or the writer bounds what it writes
        for f in fns:
            pv = mir.Prov(f.body)
            for b, t in f.body.calls():
                if mir.callee_path(t).split("::")[-1] == "write_all":
                    ok = ok or guarded(f, b)
    ctx.decide(ok, rule, rule + ":width-compared-with-rec_len", rec[0].loc,
               "the FIELD list is recorded only after a comparison with rec_len",
               "%s records a FIELD list without its width ever being compared with the record length: PUT of a list "
               "wider than LEN= writes past its record and destroys the records after it" % rec[0].name)
    ctx.require(rule, 1)


def _has_cycle(prog, f, depth=1):
    """the function (or a closure of it, or - one level - a private helper of its file) repeats something:
    a CFG cycle, or an iterator adaptor that applies a closure to every item"""
    body = f.body
    for b in range(body.nblocks):
        if body.is_cleanup(b):
            continue
        if b in {x for s2 in body.succ(b) for x in body.reachable(s2)}:
            return True
    for _b, t in body.calls():
        nm = (t.get("cpath") or "").split("::")[-1]
        if nm in ("map", "for_each", "try_for_each", "try_fold", "fold", "all", "any", "collect", "filter_map") \
                and "iter" in (t.get("cpath") or "").lower():
            return True
    if depth:
        for c in prog.call_edges(f):
            g = prog.fns.get(c)
            if g is not None and g.file == f.file and g.id != f.id and g.body is not None and _has_cycle(prog, g, depth - 1):
                return True
    return False


def _bounds_the_argument_count(lint):
    """lint() compares the length of the argument list with a constant: the list has a fixed / bounded shape"""
    body = lint.body
    pv = mir.Prov(body)
    for blk in body.blocks:
        if blk.get("c"):
            continue
        for st in blk["s"]:
            r = st.get("r", {})
            if st["k"] == "assign" and r.get("k") == "bin" and r.get("op") in ("Eq", "Ne", "Lt", "Le", "Gt", "Ge"):
                sides = [pv.of_operand(r["a"]), pv.of_operand(r["b"])]
                has_len = any(mir.origin_mentions(o, lambda z: z[0] == "call" and z[1].split("::")[-1] == "len") for o in sides)
                has_const = any(mir.strip_all(o)[0] == "const" for o in sides)
                if has_len and has_const:
                    return True
    return False


def r15_variadic_builtins_handle_every_argument(ctx, rule="C18.R15"):
    """`CLOSE #1, #2, #3` closes three files.  Where the checker of a built-in statement accepts any number of
    arguments - its lint() walks the argument list in a loop - the statement's run() walks it too (a loop, or
    an iterator adaptor over the arguments).  A run() that reads a fixed position handles the first file number
    and silently ignores the rest: the later handles stay open, a following OPEN fails with File already open,
    what is written to them afterwards lands in the file."""
    prog = ctx.prog
    from . import builtins as bi
    n = 0
    for fn in sorted(prog.fns.values(), key=lambda f: f.id):
        if fn.crate != "rusty_basic" or fn.name != "run" or fn.kind != "fn" or fn.body is None:
            continue
        import re as _re
        m = _re.search(r"interpreter::built_ins::(\w+)::run$", fn.path)
        if not m:
            continue
        lint = bi.lint_side(prog, m.group(1))
        if lint is None or not _has_cycle(prog, lint, 0) or _bounds_the_argument_count(lint):
            continue
        n += 1
        ctx.decide(_has_cycle(prog, fn), rule, "%s:%s" % (rule, m.group(1)), fn.loc,
                   "lint() and run() both walk the argument list",
                   "the checker of %s accepts an argument list of any length (its lint() loops over it), but run() does "
                   "not repeat anything: only the arguments at fixed positions are handled, the others are ignored "
                   "(`CLOSE #1, #2` leaves #2 open)" % m.group(1).upper())
    ctx.analysed_units(rule, variadic_builtins=n)
    ctx.require(rule, 2)


_UTF8_BYTES = ("as_bytes", "into_bytes", "bytes", "from_utf8", "from_utf8_lossy", "from_utf8_unchecked", "as_bytes_mut")


def r16_records_hold_one_byte_per_character(ctx, rule="C18.R16"):
    """`a record PUT with FIELD / LSET reads back unchanged with GET`: a BASIC string is a sequence of characters
    0..255 and a record holds one byte for each.  The VM keeps strings as Rust strings (UTF-8: a character above
    127 takes two bytes there), so both directions go through the VM's own codec - the function that maps every
    char to one byte and its inverse.  The built-ins that move strings into and out of records and numbers (PUT,
    GET, CVD, MKD$) reach that codec and call none of the std conversions that expose the UTF-8 bytes
    (as_bytes, into_bytes, bytes, from_utf8 ...): with `as_bytes` PUT writes two bytes for CHR$(233), GET reads one
    byte per character, and every field behind it is shifted."""
    prog = ctx.prog
    enc, dec = set(), set()
    for f in prog.fns.values():
        if f.crate != "rusty_basic" or f.body is None or "interpreter" not in f.id:
            continue
        for blk in f.body.blocks:
            if blk.get("c"):
                continue
            for st in blk["s"]:
                r = st.get("r", {})
                if st["k"] != "assign" or r.get("k") != "cast":
                    continue
                so = mir.op_place(r["o"])
                sty = f.body.locals[so[0]]["ty"] if so is not None and not so[1] else ""
                dty = f.body.locals[st["p"][0]]["ty"] if not st["p"][1] else ""
                owner = prog.enclosing_fn(f) or f
                if sty == "char" and dty == "u8":
                    enc.add(owner.id)
                if sty == "u8" and dty == "char":
                    dec.add(owner.id)
    # the codec proper: the functions that do nothing else (string_utils), not the built-ins that build one character
    enc = {x for x in enc if "built_ins" not in x}
    dec = {x for x in dec if "built_ins" not in x}
    if not enc or not dec:
        raise CheckError("%s: the byte-per-character codec was not found (char -> u8: %d functions, u8 -> char: %d)" % (rule, len(enc), len(dec)))
    n = 0
    for module, want, what in (("put", enc, "PUT"), ("get", dec, "GET"), ("cvd", enc, "CVD"), ("mkd", dec, "MKD$")):
        fns = [f for f in prog.fns.values() if f.crate == "rusty_basic" and f.body is not None
               and ("interpreter::built_ins::%s::" % module) in f.path]
        if not fns:
            raise CheckError("%s: built-in %s not found" % (rule, module))
        reach = prog.reachable_from(fns)
        bad = []
        for f in fns:
            for _b, t in f.body.calls():
                cp = t.get("cpath") or ""
                if cp.split("::")[-1] in _UTF8_BYTES and ("str" in cp or "String" in cp or "string" in cp):
                    bad.append("%s (%s:%s)" % (cp.split("::")[-1], f.file, t.get("ln")))
        n += 1
        ctx.decide(bool(reach & want) and not bad, rule, "%s:%s" % (rule, what), fns[0].loc,
                   "converts through the byte-per-character codec (%s), no UTF-8 byte access" % sorted(x.split("::")[-1] for x in reach & want),
                   "%s %s: a character above 127 is not one byte of the record - what PUT writes is not what GET reads back"
                   % (what, ("reads / writes the UTF-8 bytes of a string with " + ", ".join(bad)) if bad else
                      "does not reach the VM's byte-per-character codec"))
    ctx.analysed_units(rule, codec_encoders=sorted(enc), codec_decoders=sorted(dec))
    ctx.require(rule, 4)


def r17_record_number_has_the_long_range(ctx, rule="C18.R17"):
    """`a record PUT to a RANDOM file is what GET of the same record number returns`: for every record number the
    language has - a LONG, not an INTEGER.  The value that PUT / GET hand to FileInfo::put_record / get_record as the
    record number is followed back to the conversion that made it from the argument; every numeric cast that
    conversion performs (through the helpers of its file) is the cast to the 64-bit carrier with the LONG range
    test (`QBNumberCast<i64>`): the INTEGER cast (`<i32>`) refuses record 32768 with Overflow."""
    prog = ctx.prog
    n = 0
    for f in sorted(prog.fns.values(), key=lambda f: f.id):
        if f.crate != "rusty_basic" or "::interpreter::built_ins::" not in f.id or f.body is None:
            continue
        pv = mir.Prov(f.body)
        for b, t in f.body.calls():
            cname = mir.callee_path(t).split("::")[-1]
            if cname not in ("get_record", "put_record") or len(t["args"]) < 2:
                continue
            g = prog.fns.get(mir.callee_of(t))
            if g is None or "::interpreter::io::" not in g.id:
                continue
            n += 1
            owner = (prog.enclosing_fn(f) or f)
            key = "%s:%s:%s" % (rule, owner.path.split("::")[-2], cname)
            convs = []
            mir.origin_mentions(pv.of_operand(t["args"][1]),
                                lambda x: convs.append(x) or False if x[0] == "call" and "variant_casts" in x[1] else False)
            if not convs:
                ctx.unknown(rule, key, f.loc, "the record number of %s is not made by a conversion of variant_casts (%s)"
                            % (cname, mir.short_origin(pv.of_operand(t["args"][1]))[:100]))
                continue
            casts = []
            seen = set()
            work = [x for c in convs for x in prog.fns.values() if x.path == c[1] or x.id == c[1]]
            while work:
                h = work.pop()
                if h.id in seen or h.body is None:
                    continue
                seen.add(h.id)
                for b2, t2 in h.body.calls():
                    rp = t2.get("rpath") or ""
                    m = re.search(r"QBNumberCast<(\w+)>>::try_cast", rp)
                    if m:
                        casts.append((h.name, m.group(1)))
                    c2 = prog.fns.get(mir.callee_of(t2))
                    if c2 is not None and c2.file == h.file:
                        work.append(c2)
            narrow = sorted({"%s in %s" % (ty, nm) for nm, ty in casts if ty != "i64"})
            ctx.decide(bool(casts) and not narrow, rule, key, f.loc,
                       "the record number is cast with %s" % sorted({ty for _n, ty in casts}),
                       "the record number of %s is converted with %s: the INTEGER range test refuses record numbers above "
                       "32767 (Overflow) although record numbers are LONGs - `PUT #1, 40000` / `GET #1, 40000` fail"
                       % (cname, ", ".join(narrow) or "no numeric cast this rule can see"))
    ctx.require(rule, 2)


def r18_record_access_checks_the_mode(ctx, rule="C18.R18"):
    """GET and PUT are for RANDOM files: the mode is checked where the record is read / written (FileInfo::get_record /
    put_record reach the mode test).  Every path of the built-in's run() that ends in success passes through that call -
    a shortcut that returns Ok before it (nothing to decode, nothing to write) lets GET / PUT on a handle open FOR INPUT,
    OUTPUT or APPEND go by without Bad file mode."""
    prog = ctx.prog
    for module, callee, what in (("get", "get_record", "GET"), ("put", "put_record", "PUT")):
        fns = [f for f in prog.fns.values() if f.crate == "rusty_basic" and f.name == "run"
               and ("interpreter::built_ins::%s::" % module) in f.path]
        if len(fns) != 1:
            raise CheckError("%s: run() of built-in %s not found" % (rule, module))
        f = fns[0]
        body = f.body
        calls = {b for b, t in body.calls() if mir.callee_path(t).split("::")[-1] == callee}
        oks = [b for b, blk in enumerate(body.blocks) if not blk.get("c") for st in blk["s"]
               if st["k"] == "assign" and st["p"] == [0, []] and st["r"]["k"] == "agg"
               and st["r"].get("adt") == "core::result::Result" and st["r"].get("variant") == "Ok"]
        if not calls:
            ctx.violation(rule, "%s:%s" % (rule, what), f.loc, "%s no longer calls %s: the record is not read / written where the "
                          "file mode is checked" % (what, callee))
            continue
        if not oks:
            raise CheckError("%s: %s has no successful return" % (rule, what))
        bad = [b for b in oks if not body.every_path_passes(0, {b}, calls)]
        lines = sorted({body.blocks[b]["t"].get("ln") or (body.blocks[b]["s"][-1].get("ln") if body.blocks[b]["s"] else None) for b in bad})
        ctx.decide(not bad, rule, "%s:%s" % (rule, what), f.loc, "every successful path passes through %s" % callee,
                   "%s can return Ok (line %s) without having called %s: the mode of the file is not checked on that path, "
                   "so %s on a handle that is not open FOR RANDOM succeeds silently instead of raising Bad file mode"
                   % (what, lines, callee, what))
    ctx.require(rule, 2)


def run(ctx):
    common.install(ctx)
    r1_open_guard(ctx)
    r2_result_propagated(ctx)
    r3_close(ctx)
    r4_error_mapping(ctx)
    r5_console_file_agree(ctx)
    r6_open_modes(ctx)
    r7_record_layout(ctx)
    r8_separator_classes(ctx)
    r9_put_get_same_offset(ctx)
    r10_get_tolerates_short_record(ctx)
    r11_text_is_decoded_as_it_was_encoded(ctx)
    from . import c01
    c01.r3_determinism(ctx, "C18.R12")
    r13_recorded_index_exists(ctx)
    r14_field_list_fits_the_record(ctx)
    r15_variadic_builtins_handle_every_argument(ctx)
    r16_records_hold_one_byte_per_character(ctx)
    r17_record_number_has_the_long_range(ctx)
    r18_record_access_checks_the_mode(ctx)
