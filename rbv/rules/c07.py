"""C07 - parsing and checking any text ends with a program or a located error (C07.R1-R3)."""
import re
from .. import mir, pcnull
from ..core import CheckError
from . import common, panics

LEVEL = "other"
EXPLANATION = (
    "(R1) explicit-panic audit of everything reachable from parse_main_str / parse_main_file / lint: "
    "each explicit panic site (panic!/unreachable!/unimplemented!/todo!/assert!, unwrap/expect, "
    "Index on Vec/HashMap) is keyed by function, kind and ordinal and must be locally discharged, "
    "audited, a known finding, or in the frozen baseline - a new reachable site is a violation; the "
    "same audit covers the implicit sites rustc inserts for slice/array indexing (bounds check) and "
    "integer / and % (zero check): each must be proved from the comparisons that dominate it (zone "
    "domain over the dominating switch edges and `for` range items, with a redefinition check) or "
    "be audited / in the baseline, so a weakened guard (i <= len - 1 before a[i + 1]) is reported; (R3) "
    "the position attached to a parse error is read from the same reader the parser ran on; "
    "StringView::position indexes its table only behind the !is_eof() guard and the end-of-text "
    "position behind a non-empty guard; the program parser ends in demand_eof; (R4) the lexer's "
    "character classes for &O / &H literals are subsets of the domains of the digit converters that "
    "panic outside them (both tabulated over ASCII). (R2) every instantiation of the repetition combinators (ManyParser, ManyCtxParser, DelimitedParser) is enumerated from the types of MIR locals; its element (delimiter) is not optional by its combinator type, otherwise the repetition never sees a soft failure and loops forever. Audited (J2) panic sites whose invariant is of the form `the parser demands X` carry a re-checked witness: the named parser constructor builds no parser that is optional by its combinator type.  (R6) inside a family of mutually recursive tree rewrites no member hands the result of one recursive call to a member that looks inside it again (2^depth)."
    " (R7 = C13.R12) every declaration looks at all entries of the name before it makes a type, which keeps the name table's clash panic unreachable; the audited panic sites of the sub-call name folding carry a machine-checked witness (guard and worker interpreted on every tree up to depth 4)."
    " (R8 = C13.R3) the DEFtype letter table is indexed through one folding index function and a range is written as an index interval.")
NOT_DECIDED = [
    "absence of arithmetic-overflow panics (debug profile only) and of stack overflow on deep nesting",
    "termination of repetitions whose element is optional for a reason the type does not show (a boxed choice with an optional alternative, a repetition that allows none inside a repetition, recursion through a lazy parser)",
    "that the reported row/column lies inside the text (value-level)",
]


def r3_error_position(ctx, rule="C07.R3"):
    prog = ctx.prog
    fs = [f for f in prog.fns.values() if f.name == "program_parser" and f.crate == "rusty_parser" and f.kind == "fn"]
    if len(fs) != 1:
        raise CheckError("anchor program_parser")
    f = fs[0]
    pv = mir.Prov(f.body)
    parse_reader = pos_reader = None
    for b, t in f.body.calls():
        cp = t.get("cpath") or ""
        if (t.get("ctrait") or "").endswith("parser::Parser") and cp.endswith("::parse"):
            parse_reader = mir.strip_all(pv.of_operand(t["args"][1]))
        if cp.endswith("StringView::position"):
            pos_reader = mir.strip_all(pv.of_operand(t["args"][0]))
    ctx.decide(parse_reader is not None and parse_reader == pos_reader, rule, rule + ":position-from-same-reader", f.loc,
               "Err(err.at_pos(reader.position())) for the reader that was parsed",
               "the parse error position is not read from the reader the parser ran on")
    at = [1 for g in [f] + prog.closures_of(f) for _b, t in g.body.calls() if (t.get("cpath") or "").endswith("AtPos::at_pos")]
    ctx.decide(bool(at), rule, rule + ":error-is-positioned", f.loc, "parse errors are wrapped with at_pos",
               "program_parser returns parse errors without a position")
    pos = ctx.anchor_method("StringView", "position")
    body = pos.body
    eof_bb = [b for b, t in body.calls() if (t.get("cpath") or "").endswith("is_eof")]
    ok = False
    if len(eof_bb) == 1:
        sw = body.term(body.term(eof_bb[0])["t"])
        if sw["k"] == "switch":
            false_t = [tg for v, tg in sw["ts"] if v == 0]
            idx_blocks = [b for b, blk in enumerate(body.blocks) if not blk.get("c") and
                          (any(isinstance(e, dict) and "i" in e for s in blk["s"] if s["k"] == "assign"
                               for e in (s["r"].get("p") or [0, []])[1] + (mir.op_place(s["r"].get("o", {})) or [0, []])[1])
                           or (blk["t"]["k"] == "call" and (blk["t"].get("cpath") or "").endswith("Index::index")))]
            ok = bool(false_t) and bool(idx_blocks) and all(body.dominates(false_t[0], b) for b in idx_blocks)
    ctx.decide(ok, rule, rule + ":index-behind-not-eof", pos.loc, "row_col[index] only when !is_eof()",
               "StringView::position indexes row_col without the !is_eof() guard dominating it")
    # the end-of-input position is computed on the eof side of position() - inline or in the private
    # method called there (found by the call, not by its name): it must guard the empty text
    eof_side = set()
    if len(eof_bb) == 1:
        sw = body.term(body.term(eof_bb[0])["t"])
        if sw["k"] == "switch":
            true_t = [tg for v, tg in sw["ts"] if v != 0] or [sw["else"]]
            false_t = [tg for v, tg in sw["ts"] if v == 0]
            tgt = sw["else"] if false_t else true_t[0]
            eof_side = {x for x in body.reachable(tgt) if body.dominates(tgt, x)}
    cands = [pos] + [prog.fns[mir.callee_of(t)] for b, t in body.calls()
                     if b in eof_side and mir.callee_of(t) in prog.fns and prog.fns[mir.callee_of(t)].crate == "rusty_parser"]
    guards = [(g, b) for g in cands for b, t in g.body.calls() if (t.get("cpath") or "").endswith("is_empty")]
    e = guards[0][0] if guards else pos
    # ... or it never indexes: `row_col.last()` / `get(..)` answer None for the empty text
    checked = [g for g in cands for _b, t in g.body.calls()
               if (t.get("cpath") or "").split("::")[-1] in ("last", "get", "first")]
    unchecked = [g for g in cands if g is not pos for b, blk in enumerate(g.body.blocks) if not blk.get("c")
                 if (blk["t"]["k"] == "call" and (blk["t"].get("cpath") or "").endswith("Index::index"))
                 or any(isinstance(e_, dict) and "i" in e_ for s_ in blk["s"] if s_["k"] == "assign"
                        for e_ in (s_["r"].get("p") or [0, []])[1])]
    ctx.decide(len(guards) == 1 or (bool(checked) and not unchecked), rule, rule + ":eof-position-non-empty-guard", e.loc,
               "is_empty() guard" if guards else "checked access (last / get)",
               "the end-of-input position no longer guards the empty text")
    pp = [g for g in prog.fns.values() if g.name == "program_parser_p" and g.crate == "rusty_parser" and g.kind == "fn"]
    if len(pp) != 1:
        raise CheckError("anchor program_parser_p")
    names = [mir.callee_path(t).split("::")[-1] for _b, t in pp[0].body.calls()]
    ctx.decide("demand_eof" in names, rule, rule + ":demands-eof", pp[0].loc, "program parser ends in demand_eof",
               "program_parser_p no longer demands end of input: trailing garbage is silently ignored")
    ctx.require(rule, 5)


def r4_token_classes_within_converter_domains(ctx, rule="C07.R4"):
    """The literal converters panic on a character outside their alphabet (convert_oct_digit,
    convert_hex_digit): that is safe only because the lexer's character class for the token is a
    subset of the converter's domain.  Both sides are tabulated over ASCII - the class predicate
    handed to oct_or_hex_digits, and the characters for which the converter diverges - and compared."""
    from .. import charpred, tagflow as tf
    prog = ctx.prog
    eng = charpred.engine(prog)
    n = 0
    for lexer_fn, conv_fn in (("oct_digits", "convert_oct_digit"), ("hex_digits", "convert_hex_digit")):
        lx = [f for f in prog.fns.values() if f.name == lexer_fn and "tokens::any_token" in f.path and f.kind == "fn"]
        cv = [f for f in prog.fns.values() if f.name == conv_fn and f.kind == "fn"]
        if len(lx) != 1 or len(cv) != 1:
            raise CheckError("anchors %s / %s" % (lexer_fn, conv_fn))
        lx, cv = lx[0], cv[0]
        calls = [t for _b, t in lx.body.calls() if mir.callee_path(t).split("::")[-1] == "oct_or_hex_digits"]
        if len(calls) != 1 or len(calls[0]["args"]) < 2:
            raise CheckError("%s: call to oct_or_hex_digits not found" % lexer_fn)
        pred = charpred.pred_of_operand(prog, lx, calls[0]["args"][1])
        if pred is None:
            raise CheckError("%s: character class predicate not recognised" % lexer_fn)
        acc, und = charpred.accepted(eng, prog, pred)
        if not acc:
            raise CheckError("%s: empty character class" % lexer_fn)
        bad = sorted(chr(c) for c in acc | und if eng.divergences(cv, (tf.K(c),)))
        n += 1
        ctx.decide(not bad and not und, rule, "%s:%s-within-%s" % (rule, lexer_fn, conv_fn), lx.loc,
                   "class {%s} is inside the converter's domain" % "".join(sorted(chr(c) for c in acc)),
                   "the lexer accepts %s in this literal but %s panics on %s: `&O18`-like source text aborts the "
                   "parser instead of being a syntax error" % (bad, conv_fn, bad))
    ctx.analysed_units(rule, pairs=n)
    ctx.require(rule, 2)


def r2_repetitions_make_progress(ctx, rule="C07.R2"):
    """`loop forever`: ManyParser / ManyCtxParser repeat their element until it fails softly, and
    DelimitedParser repeats element + delimiter until the delimiter fails softly. An element
    (delimiter) that succeeds on every input - optional by its combinator type - never fails, so the
    loop never ends. rusty_pc encodes the combinator tree in the parser's type, so every
    instantiation of the three repetition types in the parser crates is enumerated from the types of
    MIR locals and its element / delimiter type is judged by pcnull.provably_optional."""
    prog = ctx.prog
    seen = {}
    for f in sorted(prog.fns.values(), key=lambda f: f.id):
        if f.crate not in ("rusty_parser", "rusty_pc"):
            continue
        for l in f.body.locals:
            ty = l["ty"]
            if "ManyParser<" not in ty and "DelimitedParser<" not in ty and "ManyCtxParser<" not in ty:
                continue

            def cb(name, args, f=f):
                if name in ("ManyParser", "ManyCtxParser") and args:
                    seen.setdefault((name, "element", args[0]), f)
                if name == "DelimitedParser" and len(args) >= 2:
                    seen.setdefault((name, "delimiter", args[1]), f)
            pcnull.walk(ty, cb)
    n = 0
    per_fn = {}
    for (name, role, ty), f in sorted(seen.items(), key=lambda kv: (kv[1].id, kv[0])):
        if ty in ("P", "D", "Self"):
            continue    # the generic definitions in rusty_pc themselves
        owner = (prog.enclosing_fn(f) or f).path.split("::", 1)[1]
        k = per_fn.get((owner, name, role), 0)
        per_fn[(owner, name, role)] = k + 1
        key = "%s:%s:%s:%s%s" % (rule, owner, name, role, "#%d" % k if k else "")
        n += 1
        ctx.decide(not pcnull.provably_optional(ty), rule, key, f.loc,
                   "%s of %s is %s... : not optional by type" % (role, name, pcnull.head_chain(ty, 3)),
                   "the %s of a %s built in %s is optional by its combinator type (%s...): it succeeds without "
                   "consuming input, the repetition never sees a soft failure and parsing loops forever on any "
                   "input that reaches it" % (role, name, owner, pcnull.head_chain(ty, 4)))
    ctx.analysed_units(rule, repetition_instantiations=n)
    ctx.require(rule, 15)


def _proj_chain(o):
    """(root, ('field name' ...)) of a place-like origin; None when it is not a projection of a
    parameter / call result"""
    chain = []
    o = mir.strip_all(o)
    while o[0] in ("field", "downcast", "index"):
        if o[0] == "field":
            chain.append(str(o[2]))
        elif o[0] == "index":
            chain.append("[]")
        o = mir.strip_all(o[1])
    if o[0] == "call" and len(o[2]) == 1:
        # iterator / as_ref / deref adapters keep the subtree
        r = _proj_chain(o[2][0])
        if r is not None:
            return (r[0], r[1] + tuple(reversed(chain)))
    if o[0] not in ("param",):
        return None
    return (o, tuple(reversed(chain)))


def r5_no_double_descent(ctx, rule="C07.R5"):
    """`bounded time ... as long as nesting depth stays within a few hundred levels`: a traversal of
    the program tree (the checker's visitors and rewriters) must descend into each subtree once.  A
    method that hands the same subtree - or a subtree and one of its own parts - to its own traversal
    twice on one path doubles the work at every level of nesting: 2^depth visits, minutes at depth 30.
    For every method of the three traversal traits (impls and defaults) all pairs of calls
    `self.visit_*(x)` that lie on a common path are compared: x and y must be disjoint subtrees of
    the method's arguments."""
    from . import c08
    prog = ctx.prog
    traits = (c08.PCL, c08.ER, c08.VIS)
    fns = []
    for f in prog.fns.values():
        if f.crate != "rusty_linter" or f.kind == "closure":
            continue
        tr = f.impl.get("trait") if f.impl else None
        if tr in traits:
            fns.append(f)
    for tid in traits:
        for it in prog.traits[tid]["items"]:
            g = prog.fns.get(it["id"])
            if g is not None and it.get("has_default") and g not in fns:
                fns.append(g)
    n = 0
    for f in sorted(fns, key=lambda f: f.id):
        body = f.body
        pv = mir.Prov(body)
        sites = []
        for b, t in body.calls():
            if t.get("ctrait") not in traits or len(t["args"]) < 2:
                continue
            recv = mir.strip_all(pv.of_operand(t["args"][0]))
            if recv != ("param", 0):
                continue        # a delegate, not this traversal itself
            ch = _proj_chain(pv.of_operand(t["args"][1]))
            if ch is None:
                continue
            sites.append((b, t, ch))
        n += 1
        dup = None
        for i, (b1, t1, c1) in enumerate(sites):
            for b2, t2, c2 in sites[i + 1:]:
                if c1[0] != c2[0]:
                    continue
                k = min(len(c1[1]), len(c2[1]))
                if c1[1][:k] != c2[1][:k]:
                    continue        # disjoint parts
                if b2 in body.reachable(b1) or b1 in body.reachable(b2):
                    dup = (t1, c1, t2, c2)
        name = f.path.split("::", 1)[1]
        if dup:
            t1, c1, t2, c2 = dup
            ctx.violation(rule, "%s:%s" % (rule, name), f.loc,
                          "%s descends twice into the same part of the tree on one path: %s(%s) at line %s and "
                          "%s(%s) at line %s - every level of nesting doubles the work (2^depth visits), so checking "
                          "a deeply nested but valid expression no longer ends in bounded time"
                          % (name, (t1.get("cpath") or "").split("::")[-1], ".".join(c1[1]) or "the whole node", t1.get("ln"),
                             (t2.get("cpath") or "").split("::")[-1], ".".join(c2[1]) or "the whole node", t2.get("ln")),
                          {"function": f.path})
        else:
            ctx.ok(rule, "%s:%s" % (rule, name), f.loc, "%d descents, pairwise disjoint or on different paths" % len(sites))
    ctx.analysed_units(rule, traversal_methods=n)
    ctx.require(rule, 60)


def _recursive_families(prog, crates):
    """Strongly connected components of the call graph among the functions of `crates` (closures
    counted with their enclosing function) that contain a cycle: {owner id: frozenset(component)}."""
    import sys

    def owner(f):
        return prog.enclosing_fn(f) or f
    nodes = {f.id: f for f in prog.fns.values() if f.crate in crates and f.kind != "const"}
    edges = {}
    for f in nodes.values():
        o = owner(f).id
        for _b, t in f.body.calls():
            c = t.get("res") or mir.callee_of(t)
            if c in nodes:
                edges.setdefault(o, set()).add(owner(nodes[c]).id)
    index, low, st, on, out = {}, {}, [], set(), {}
    cnt = [0]
    old = sys.getrecursionlimit()
    sys.setrecursionlimit(20000)

    def sc(v):
        index[v] = low[v] = cnt[0]
        cnt[0] += 1
        st.append(v)
        on.add(v)
        for w in edges.get(v, ()):
            if w not in index:
                sc(w)
                low[v] = min(low[v], low[w])
            elif w in on:
                low[v] = min(low[v], index[w])
        if low[v] == index[v]:
            comp = []
            while True:
                w = st.pop()
                on.discard(w)
                comp.append(w)
                if w == v:
                    break
            if len(comp) > 1 or comp[0] in edges.get(comp[0], ()):
                fs = frozenset(comp)
                for w in comp:
                    out[w] = fs
    try:
        for v in list(edges):
            if v not in index:
                sc(v)
    finally:
        sys.setrecursionlimit(old)
    return out


PASS_THROUGH_STD = ("Box::<T>::new", "boxed::Box::<T>::new", "Into::into", "From::from", "Clone::clone",
                    "Deref::deref", "DerefMut::deref_mut", "AsRef::as_ref", "Borrow::borrow")


def _same_value(body, seeds):
    """locals holding the seed values, a part of them, or a box / reference of them - not an aggregate
    built around them"""
    vs = set(seeds)
    changed = True
    while changed:
        changed = False
        for blk in body.blocks:
            for stt in blk["s"]:
                if stt["k"] != "assign" or stt["p"][0] in vs:
                    continue
                r = stt["r"]
                src = None
                if r["k"] in ("use", "cast") and isinstance(r.get("o"), dict):
                    pl = mir.op_place(r["o"])
                    src = pl[0] if pl is not None else None
                elif r["k"] in ("ref", "addr") and "p" in r:
                    src = r["p"][0]
                if src in vs:
                    vs.add(stt["p"][0])
                    changed = True
            t = blk["t"]
            if t["k"] == "call" and t["d"][0] not in vs and (t.get("cpath") or "").endswith(PASS_THROUGH_STD):
                args = {mir.op_place(a)[0] for a in t["args"] if mir.op_place(a) is not None}
                if args & vs:
                    vs.add(t["d"][0])
                    changed = True
    return vs


def _inspects(prog, g, i, memo, depth=0):
    """Does g look inside its parameter i (0-based): take the discriminant of it or of a part of
    it, hand it to a closure, or pass it on to a workspace function that does."""
    key = (g.id, i)
    if key in memo:
        return memo[key]
    memo[key] = False
    if i + 1 > g.argc or depth > 6:
        return False
    body = g.body
    vs = _same_value(body, {i + 1})
    res = False
    for blk in body.blocks:
        for stt in blk["s"]:
            if stt["k"] == "assign" and stt["r"]["k"] == "discr" and stt["r"]["p"][0] in vs:
                res = True
    if not res:
        for _b, t in body.calls():
            pos = [j for j, a in enumerate(t["args"]) if mir.op_place(a) is not None and mir.op_place(a)[0] in vs]
            if not pos:
                continue
            cp = t.get("cpath") or ""
            if re.match(r"^std::ops::Fn(Once|Mut)?::call", cp):
                res = True
                break
            h = prog.fns.get(t.get("res") or mir.callee_of(t))
            if h is not None and any(_inspects(prog, h, j, memo, depth + 1) for j in pos):
                res = True
                break
    memo[key] = res
    return res


def r6_no_composed_recursion(ctx, rule="C07.R6"):
    """`bounded time`: the tree rewrites of the parser and the checker are families of mutually
    recursive functions.  Inside such a family, handing the *result* of one recursive call to another
    member of the family that looks inside it walks the same subtree twice at that level - and, since
    the second walk does the same one level down, 2^depth times in all (forty unary minus signs
    before a variable: no answer).  For every function of a recursive family: no argument that a
    family member inspects (matches on, or passes to something that does) is the result of an
    earlier call into the family on the same path.  (Wrapping a result into a new node without
    looking at it - the rotation of binary operators - is not a second walk.)"""
    prog = ctx.prog
    fam = _recursive_families(prog, ("rusty_parser", "rusty_linter"))
    if len(set(fam.values())) < 10:
        raise CheckError("%s: only %d recursive families found" % (rule, len(set(fam.values()))))
    memo = {}
    n = 0
    pairs = 0
    for oid in sorted(fam):
        o = prog.fns[oid]
        members = fam[oid]
        worst = None
        for f in [o] + prog.closures_of(o):
            body = f.body
            calls = []
            for b, t in body.calls():
                cf = prog.fns.get(t.get("res") or mir.callee_of(t))
                if cf is not None and (prog.enclosing_fn(cf) or cf).id in members:
                    calls.append((b, t, cf))
            if len(calls) < 2:
                continue
            for b1, t1, _c1 in calls:
                vs = _same_value(body, {t1["d"][0]})
                reach = body.reachable(b1)
                for b2, t2, c2 in calls:
                    if b2 == b1 or b2 not in reach:
                        continue
                    for j, a in enumerate(t2["args"]):
                        pl = mir.op_place(a)
                        if pl is not None and pl[0] in vs:
                            pairs += 1
                            if _inspects(prog, c2, j, memo):
                                worst = (t1, t2)
        n += 1
        name = o.path.split("::", 1)[1]
        ctx.decide(worst is None, rule, "%s:%s" % (rule, name), o.loc,
                   "no result of a recursive call is inspected by the family again",
                   "%s hands the result of %s (line %s) to %s (line %s), which looks inside it; both are members of "
                   "one recursive family: the subtree is walked twice at every level of nesting, 2^depth in all - a "
                   "chain of forty unary operators or parentheses no longer ends in bounded time"
                   % (name, (worst[0].get("cpath") or "?").split("::")[-1] if worst else "", worst[0].get("ln") if worst else "",
                      (worst[1].get("cpath") or "?").split("::")[-1] if worst else "", worst[1].get("ln") if worst else ""))
    ctx.analysed_units(rule, recursive_functions=n, families=len(set(fam.values())), result_to_family_pairs=pairs)
    ctx.require(rule, 20)


def run(ctx):
    common.install(ctx)
    panics.r_audit(ctx, "C07.R1", scope="frontend")
    r2_repetitions_make_progress(ctx)
    r3_error_position(ctx)
    r4_token_classes_within_converter_domains(ctx)
    r5_no_double_descent(ctx)
    r6_no_composed_recursion(ctx)
    # the name table panics when a name is inserted in a style that clashes with what is there (an audited
    # site: the declaration rules look first).  That every declaration looks at everything of the name - the
    # local entries of both styles and the SHARED ones - before it makes a type is decided by C13.R12
    from . import c13
    c13.r12_every_definition_looks_at_the_shared_names(ctx, "C07.R7")
    # the letter table is indexed through one folding index function; a DEFtype range is written as an index
    # interval (an audited panic of the index function - `Not a latin letter` - relies on it)
    c13.r3_default_types(ctx, "C07.R8")
