"""C07.R1 / C08.R6: explicit panic-site audit (see DESIGN.md)."""
from .. import mir
from ..core import CheckError


def r_audit(ctx, rule, scope):
    ctx.not_decided.append("%s (explicit panic audit, scope %s): not built in this revision" % (rule, scope))
