"""C10 - precedence and literals (DESIGN.md section 4, C10.R1-R4)."""
from .. import mir, tagflow as tf
from ..core import CheckError
from . import common

LEVEL = "other"
EXPLANATION = (
    "The parser repairs precedence with two predicates over operator pairs.  Both are evaluated "
    "exhaustively by abstract interpretation of their MIR over enum tags (13x13 binary, 2x13 "
    "unary cells) and compared with the precedence ranks the property states: the predicate must "
    "be true exactly when the left operator binds at least as tightly as the right one.  A "
    "two-operator chain groups correctly iff its cell is right.  Literal clauses decided: the "
    "decimal-literal conversion has no error exit and yields INTEGER/LONG/DOUBLE; hex/octal yield "
    "INTEGER/LONG or Overflow; fraction literals yield SINGLE or (with #) DOUBLE; negating a "
    "literal is guarded at MIN_INTEGER / MIN_LONG, and (R5, interval dataflow) every integer literal "
    "built by arithmetic in the parser stays inside the range of its literal type. (R6) a unary operator is pushed down the whole left spine of the chain it precedes; (R7) the parser never narrows an f64 to f32, so a SINGLE literal is rounded once, from its text; (R8) the operand of a unary or keyword operator is parsed as a whole expression also when it starts with `(` (the parenthesis-only parser is used by the list of primaries only; shared with C09.R14)."
    " (R9) a literal whose text spells a number beyond the range of its type is an error: the parser tests the parsed float with is_finite (shared with C06.R14); the Overflow exit of the decimal converter is accepted only on the not-finite side of that test."
    " (R10) binary_expr is interpreted on every chain of three operators (one per precedence level, the right side built by the same function) and the tree compared with the one the ranks prescribe, modulo the associativity of AND / OR."
    " (R11) the fold of a unary minus into its literal rewrites the whole tree: wherever it rebuilds a node with operands, every operand of the new node is the rewrite of the old one, on every path.")
NOT_DECIDED = [
    "that the binary rotation groups chains of four or more operators correctly (the unary rotation is decided on two-level chains, C10.R6)",
    "the numeric thresholds and the exact value a literal denotes (value-level)",
]
ASSUMPTIONS = ["precedence ranks as stated in the property text: * / > MOD > + - > relational > "
               "NOT > AND > OR, unary minus above all",
               "C10.R4: str::parse::<f64> does not fail on a non-empty run of ASCII digits (std float "
               "grammar); an error exit of process_dec conditioned only on that parse is not counted"]

EXPR = "rusty_parser::expr::types::Expression"
OP = "rusty_parser::core::operator::Operator"
UOP = "rusty_parser::core::unary_operator::UnaryOperator"
POS = "rusty_common::positioned::Positioned"

RANK = {"Multiply": 6, "Divide": 6, "Modulo": 5, "Plus": 4, "Minus": 4,
        "Less": 3, "LessOrEqual": 3, "Equal": 3, "GreaterOrEqual": 3, "Greater": 3, "NotEqual": 3,
        "And": 2, "Or": 1}
URANK = {"Minus": 7, "Not": 2.5}
# grouping is not observable for these pairs (bitwise AND / OR on INTEGER are associative and
# both operands of both groupings are converted to INTEGER): either answer is accepted
ASSOCIATIVE = {("And", "And"), ("Or", "Or")}


def trait_impl_method(prog, trait_name, self_suffix, method):
    out = [f for f in prog.fns.values()
           if f.name == method and f.impl and f.impl["self_ty"].endswith(self_suffix)
           and trait_name in (f.impl.get("trait_ref") or "")]
    if len(out) != 1:
        raise CheckError("anchor <%s as %s>::%s: %d matches" % (self_suffix, trait_name, method, len(out)))
    return out[0]


def r1_binary_flip(ctx, eng, rule="C10.R1"):
    prog = ctx.prog
    fn = trait_impl_method(prog, "ExpressionTrait", "types::Expression", "should_flip_binary")
    ops = prog.variants(OP)
    if set(ops) != set(RANK):
        raise CheckError("Operator variants changed: %s" % sorted(set(ops) ^ set(RANK)))
    for l in ops:
        for r in ops:
            inner = eng.make(EXPR, "BinaryExpression", {0: tf.Tag(OP, r)})
            right = eng.make(POS, "Positioned", {0: inner})
            outer = eng.make(EXPR, "BinaryExpression", {0: tf.Tag(OP, l), 2: right})
            rs = sorted(tf.shape(x) for x in eng.summary(fn, (tf.Ref(outer),)))
            key = "%s:flip(%s,%s)" % (rule, l, r)
            want = "1" if RANK[l] >= RANK[r] else "0"
            if rs not in (["0"], ["1"]):
                ctx.unknown(rule, key, fn.loc, "abstract result %s" % rs)
                continue
            if (l, r) in ASSOCIATIVE:
                ctx.ok(rule, key, fn.loc, "associative pair, grouping not observable (got %s)" % rs[0])
                continue
            ctx.decide(rs == [want], rule, key, fn.loc, "flip=%s" % want,
                       "`a %s b %s c` is parsed right-nested as a %s (b %s c); should_flip_binary "
                       "returns %s where the ranks (%d vs %d) require %s, so the expression groups as "
                       "%s" % (l, r, l, r, rs[0] == "1", RANK[l], RANK[r], want == "1",
                               "(a %s b) %s c" % (l, r) if rs[0] == "1" else "a %s (b %s c)" % (l, r)))
    # a non-binary right operand never flips
    for v in prog.variants(EXPR):
        if v == "BinaryExpression":
            continue
        right = eng.make(POS, "Positioned", {0: eng.make(EXPR, v)})
        outer = eng.make(EXPR, "BinaryExpression", {0: tf.Tag(OP, "Plus"), 2: right})
        rs = sorted(tf.shape(x) for x in eng.summary(fn, (tf.Ref(outer),)))
        ctx.decide(rs == ["0"], rule, "%s:no-flip-over:%s" % (rule, v), fn.loc, "no flip",
                   "should_flip_binary is %s when the right operand is a %s" % (rs, v))
    ctx.analysed_units(rule, function=fn.path, cells=len(ops) ** 2)
    ctx.require(rule, 169 + 10)


def r2_unary_flip(ctx, eng, rule="C10.R2"):
    prog = ctx.prog
    fn = trait_impl_method(prog, "ExpressionTrait", "types::Expression", "should_flip_unary")
    for u in prog.variants(UOP):
        if u not in URANK:
            raise CheckError("unknown unary operator %s" % u)
        for r in prog.variants(OP):
            e = eng.make(EXPR, "BinaryExpression", {0: tf.Tag(OP, r)})
            rs = sorted(tf.shape(x) for x in eng.summary(fn, (tf.Ref(e), tf.Tag(UOP, u))))
            want = "1" if URANK[u] > RANK[r] else "0"
            key = "%s:flip(%s,%s)" % (rule, u, r)
            if rs not in (["0"], ["1"]):
                ctx.unknown(rule, key, fn.loc, "abstract result %s" % rs)
                continue
            ctx.decide(rs == [want], rule, key, fn.loc, "flip=%s" % want,
                       "`%s a %s b` : should_flip_unary returns %s, ranks require %s"
                       % (u, r, rs[0], want))
    ctx.require(rule, 26)


def _tree(v):
    v = tf.deref(v)
    if v[0] == "tag" and v[2] == "Positioned":
        return _tree(v[3][0])
    if v[0] == "tag" and v[2] == "BinaryExpression":
        o = tf.deref(v[3][0])
        return "(%s %s %s)" % (_tree(v[3][1]), o[2] if o[0] == "tag" else "?", _tree(v[3][2]))
    if v[0] == "tag" and v[2] == "UnaryExpression":
        o = tf.deref(v[3][0])
        return "%s[%s]" % (o[2] if o[0] == "tag" else "?", _tree(v[3][1]))
    if v[0] == "tag":
        return "x"
    return "?"


def r6_unary_over_chains(ctx, rule="C10.R6"):
    """`u a op1 b op2 c`: the operand of the unary operator is parsed greedily as the already
    grouped chain (a op1 b) op2 c; apply_unary_priority_order must move the operator down the left
    spine past every operator that binds looser than it - all the way, not just one level.  The
    function is interpreted abstractly on every such two-level tree (all operator pairs the binary
    grouping can produce) and the resulting tree is compared with the one the ranks prescribe."""
    prog = ctx.prog
    eng = tf.Engine(prog)
    eng.trunc_depth = 10
    fns = [f for f in prog.fns.values() if f.name == "apply_unary_priority_order" and f.impl
           and f.impl["self_ty"].endswith("Positioned<expr::types::Expression>")]
    if len(fns) != 1:
        raise CheckError("anchor apply_unary_priority_order: %d matches" % len(fns))
    fn = fns[0]

    def leaf():
        return eng.make(POS, "Positioned", {0: eng.make(EXPR, "IntegerLiteral")})

    def binop(op, l, r):
        return eng.make(POS, "Positioned", {0: eng.make(EXPR, "BinaryExpression", {0: tf.Tag(OP, op), 1: l, 2: r})})

    n = 0
    for u in prog.variants(UOP):
        for op1 in prog.variants(OP):
            for op2 in prog.variants(OP):
                if RANK[op1] < RANK[op2]:
                    continue    # the binary grouping never produces (a op1 b) op2 c for these
                n += 1
                x = binop(op2, binop(op1, leaf(), leaf()), leaf())
                got = sorted({_tree(r) for r in eng.summary(fn, (x, tf.Tag(UOP, u), tf.TOP))})
                if URANK[u] > RANK[op2]:
                    inner = "(%s[x] %s x)" % (u, op1) if URANK[u] > RANK[op1] else "%s[(x %s x)]" % (u, op1)
                    want = "(%s %s x)" % (inner, op2)
                else:
                    want = "%s[((x %s x) %s x)]" % (u, op1, op2)
                key = "%s:%s(%s,%s)" % (rule, u, op1, op2)
                if any("?" in g for g in got):
                    ctx.unknown(rule, key, fn.loc, "abstract result %s" % got)
                    continue
                ctx.decide(got == [want], rule, key, fn.loc, want,
                           "`%s a %s b %s c` is built as %s, the ranks prescribe %s" % (u, op1, op2, got, want))
    n3 = 0
    if ctx.tier == "thorough":
        # three-level chains u a op1 b op2 c op3 d, grouped ((a op1 b) op2 c) op3 d by the binary pass
        def want3(u, ops):
            # push u down the left spine past every operator it binds tighter than
            def build(k):           # tree of ops[:k+1]
                if k < 0:
                    return "x"
                return "(%s %s x)" % (build(k - 1), ops[k])
            def place(k):           # u applied somewhere inside the tree of ops[:k+1]
                if k < 0:
                    return "%s[x]" % u
                if URANK[u] > RANK[ops[k]]:
                    return "(%s %s x)" % (place(k - 1), ops[k])
                return "%s[%s]" % (u, build(k))
            return place(len(ops) - 1)
        for u in prog.variants(UOP):
            for op1 in prog.variants(OP):
                for op2 in prog.variants(OP):
                    if RANK[op1] < RANK[op2]:
                        continue
                    for op3 in prog.variants(OP):
                        if RANK[op2] < RANK[op3]:
                            continue
                        n3 += 1
                        x = binop(op3, binop(op2, binop(op1, leaf(), leaf()), leaf()), leaf())
                        got = sorted({_tree(r) for r in eng.summary(fn, (x, tf.Tag(UOP, u), tf.TOP))})
                        want = want3(u, [op1, op2, op3])
                        key = "%s:%s(%s,%s,%s)" % (rule, u, op1, op2, op3)
                        if any("?" in g for g in got):
                            ctx.unknown(rule, key, fn.loc, "abstract result %s" % got)
                            continue
                        ctx.decide(got == [want], rule, key, fn.loc, want,
                                   "`%s a %s b %s c %s d` is built as %s, the ranks prescribe %s"
                                   % (u, op1, op2, op3, got, want))
    if eng.imprecise:
        ctx.notes.append("C10.R6 abstract interpreter imprecision: %s" % eng.imprecise[:3])
    ctx.analysed_units(rule, function=fn.path, trees=n, three_level_trees=n3)
    ctx.require(rule, 150)


def r7_no_double_rounding(ctx, rule="C10.R7"):
    """`a numeric literal denotes exactly its written value`: a SINGLE literal must be parsed into
    an f32 directly.  Parsing the text as f64 and narrowing with `as f32` rounds twice and is off by
    one unit in the last place for texts near a rounding midpoint.  No function of the parser may
    narrow a float (f64 -> f32); the cast of the same kind in the linter's QBNumberCast is the
    positive example that the detector must see."""
    prog = ctx.prog

    def narrowing(fn):
        out = []
        for b, blk in enumerate(fn.body.blocks):
            if fn.body.is_cleanup(b):
                continue
            for st in blk["s"]:
                r = st.get("r", {})
                if st["k"] == "assign" and r.get("k") == "cast" and r.get("ck") == "FloatToFloat" \
                        and fn.body.locals[st["p"][0]]["ty"] == "f32":
                    out.append(st.get("ln"))
        return out
    seen_positive = False
    n = 0
    for fn in sorted(prog.fns.values(), key=lambda f: f.id):
        if fn.body is None or fn.kind == "const":
            continue
        ns = narrowing(fn)
        if fn.crate == "rusty_linter" and "QBNumberCast" in fn.path and ns:
            seen_positive = True
        if fn.crate != "rusty_parser":
            continue
        n += 1
        for ln in ns:
            owner = prog.enclosing_fn(fn) or fn
            ctx.violation(rule, "%s:%s:f64-as-f32" % (rule, owner.path.split("::", 1)[1]), "%s:%s" % (fn.file, ln),
                          "%s narrows an f64 to f32: a SINGLE literal built this way is rounded twice (decimal text -> "
                          "f64 -> f32) and can differ from the nearest SINGLE of the written value" % fn.path, {})
    if not seen_positive:
        raise CheckError("%s: the detector no longer sees the f64 -> f32 cast of QBNumberCast (self-test)" % rule)
    ctx.ok(rule, rule + ":parser-scanned", "rusty_parser", "%d parser functions, no f64 -> f32 narrowing" % n)
    ctx.analysed_units(rule, parser_functions=n)
    ctx.require(rule, 1)


def _literal_shapes(eng, fn, args):
    """Result shapes reduced to Ok(<literal variant>) / Err(<error variant>)."""
    out = set()
    for x in eng.summary(fn, args):
        x = tf.deref(x)
        if x[0] == "tag" and x[2] in ("Ok", "Err"):
            inner = tf.deref(x[3][0]) if x[3] else tf.TOP
            out.add("%s(%s)" % (x[2], inner[2] if inner[0] == "tag" else "?"))
        else:
            out.add("?")
    return sorted(out)


def _float_parse_total(eng, t, args):
    """`digits.parse::<f64>()` is modelled as Ok: the token handed to process_dec is a non-empty run
    of ASCII digits (the lexer's digit class, C09.R6), which std's f64 grammar accepts whatever its
    length (it saturates to infinity, it does not fail)."""
    k = (t.get("f") or {}).get("k") or {}
    if k.get("fnpath") == "core::str::<impl str>::parse" and k.get("gargs") == ["f64"]:
        return [eng.make("core::result::Result", "Ok", {0: tf.TOP})]
    return None


def _overflow_only_when_not_finite(fn):
    body = fn.body
    sites = [b for b, blk in enumerate(body.blocks) if not blk.get("c") for st in blk["s"]
             if st["k"] == "assign" and st["r"].get("k") == "agg" and st["r"].get("a") == "adt"
             and st["r"]["adt"].endswith("ParserError") and st["r"]["variant"] == "Overflow"]
    if not sites:
        return False
    false_targets = []
    for cb, t in body.calls():
        if (t.get("cpath") or "").split("::")[-1] != "is_finite":
            continue
        nxt = body.term(t["t"])
        if nxt["k"] == "switch" and mir.op_place(nxt["o"]) is not None and mir.op_place(nxt["o"])[0] == t["d"][0]:
            false_targets += [tg for v, tg in nxt["ts"] if v == 0]
    return bool(false_targets) and all(any(body.dominates(ft, b) for ft in false_targets) for b in sites)


def r4_decimal_total(ctx, eng, rule="C10.R4"):
    prog = ctx.prog
    eng = tf.Engine(prog, intrinsics=_float_parse_total)
    dec = [f for f in prog.fns.values() if f.name == "process_dec" and "integer_or_long_literal" in f.id]
    if len(dec) != 1:
        raise CheckError("anchor process_dec: %d matches" % len(dec))
    dec = dec[0]
    shapes = _literal_shapes(eng, dec, (tf.TOP,))
    oks = sorted(s for s in shapes if s.startswith("Ok"))
    errs = sorted(s for s in shapes if s.startswith("Err"))
    # the one error a run of digits may end in: it spells no finite DOUBLE (a 400-digit number parses as
    # infinity).  Every construction of that error lies on the `not finite` side of an is_finite test
    if "Err(Overflow)" in errs and _overflow_only_when_not_finite(dec):
        errs = [e for e in errs if e != "Err(Overflow)"]
    ctx.decide(not errs, rule, rule + ":process_dec:no-error-exit", dec.loc,
               "every path yields a literal (or Overflow for digits beyond the DOUBLE range)",
               "process_dec can return %s: a run of decimal digits is rejected as a syntax error "
               "instead of denoting a DOUBLE (`decimal: INTEGER, LONG, else DOUBLE`)" % errs)
    ctx.decide(oks == ["Ok(DoubleLiteral)", "Ok(IntegerLiteral)", "Ok(LongLiteral)"], rule,
               rule + ":process_dec:tiers", dec.loc, "INTEGER, LONG, DOUBLE",
               "process_dec yields %s" % oks)
    # `with leading zeros`: the tier is decided by the value, never by how many characters were written
    by_len = []
    for g in [dec] + prog.closures_of(dec):
        gpv = mir.Prov(g.body)
        for b, t in g.body.calls():
            nm = (t.get("cpath") or "").split("::")[-1]
            if nm in ("len", "count", "chars", "bytes") and t["args"]:
                o = gpv.of_operand(t["args"][0])
                if not mir.origin_mentions(o, lambda z: z[0] == "call" and "trim_start_matches" in z[1]):
                    by_len.append("%s (line %s)" % (nm, t.get("ln")))
    ctx.decide(not by_len, rule, rule + ":process_dec:tier-by-value-not-by-spelling", dec.loc,
               "the literal's type is decided from the parsed value only",
               "process_dec looks at the length / characters of the literal's text (%s): the number of digits "
               "written does not bound the value (leading zeros), so `00000000001` or `00000032767` gets a wider "
               "type than the value needs" % ", ".join(by_len))
    # &H / &O literals: both converters end in create_expression_from_bit_vec
    conv = [f for f in prog.fns.values()
            if f.name == "create_expression_from_bit_vec" and "integer_or_long_literal" in f.id]
    if len(conv) != 1:
        raise CheckError("anchor create_expression_from_bit_vec")
    shapes = _literal_shapes(eng, conv[0], (tf.TOP,))
    ctx.decide(shapes == ["Err(Overflow)", "Ok(IntegerLiteral)", "Ok(LongLiteral)"], rule,
               rule + ":hex-oct:tiers", conv[0].loc, "INTEGER or LONG, else Overflow",
               "create_expression_from_bit_vec yields %s" % shapes)
    for name in ("process_hex", "process_oct"):
        fs = [f for f in prog.fns.values() if f.name == name and "integer_or_long_literal" in f.id]
        if len(fs) != 1:
            raise CheckError("anchor %s" % name)
        tail = [1 for b, t in fs[0].body.calls() if mir.callee_of(t) == conv[0].id]
        if not tail:
            # through a private helper of the same file (the two converters may share their common part)
            for c1 in prog.call_edges(fs[0]):
                g1 = prog.fns.get(c1)
                if g1 is not None and g1.file == fs[0].file and g1.body is not None and \
                        any(mir.callee_of(t) == conv[0].id for _b, t in g1.body.calls()):
                    tail = [1]
        ctx.decide(bool(tail), rule, "%s:%s:through-bit-vec" % (rule, name), fs[0].loc,
                   "converted through create_expression_from_bit_vec",
                   "%s no longer converts through the two's-complement bit vector" % name)
    # fraction literals: closure in single_or_double_literal::parser
    cl = [f for f in prog.fns.values() if f.kind == "closure" and "single_or_double_literal::parser" in f.id]
    found = set()
    for c in cl:
        for blk in c.body.blocks:
            for s in blk["s"]:
                if s["k"] == "assign" and s["r"]["k"] == "agg" and s["r"].get("adt") == EXPR:
                    found.add(s["r"]["variant"])
    ctx.decide(found == {"SingleLiteral", "DoubleLiteral"}, rule, rule + ":fraction:tiers",
               cl[0].loc if cl else "single_or_double_literal.rs", "SINGLE or DOUBLE",
               "fraction literal parser constructs %s" % sorted(found))
    ctx.require(rule, 6)


def r3_negative_literal_guard(ctx, rule="C10.R3"):
    prog = ctx.prog
    fn = ctx.anchor_method("Expression", "unary_minus")
    sws = [s for s in mir.enum_switches(prog, fn.body) if s.adt == EXPR]
    if not sws:
        raise CheckError("unary_minus: no match over Expression")
    sw = max(sws, key=lambda s: len(s.arms))
    pv = mir.Prov(fn.body)
    for variant, const_name, wide, narrow in (("IntegerLiteral", "MIN_INTEGER", "LongLiteral", "IntegerLiteral"),
                                              ("LongLiteral", "MIN_LONG", "DoubleLiteral", "LongLiteral")):
        key = "%s:%s:guard-at-%s" % (rule, variant, const_name)
        tgt = sw.arms.get(variant)
        if tgt is None:
            ctx.violation(rule, key, fn.loc, "unary_minus has no arm for %s" % variant)
            continue
        region = mir.arm_region(fn.body, sw.bb, tgt)
        ok = False
        for b in sorted(region):
            t = fn.body.term(b)
            if t["k"] != "switch":
                continue
            o = pv.of_operand(t["o"])
            if o[0] != "bin" or o[1] not in ("Le", "Lt", "Ge", "Gt", "Eq", "Ne"):
                continue
            txt = str(o)
            if const_name not in txt:
                continue
            succ = fn.body.succ(b)
            built = []
            for s in succ:
                r = fn.body.reachable(s) & region
                built.append({x["r"]["variant"] for _bb, x in mir.region_aggregates(fn.body, r)
                              if x["r"].get("adt") == EXPR})
            flat = set().union(*built) if built else set()
            if wide in flat and narrow in flat and any(wide in bset and narrow not in bset for bset in built):
                ok = True
        ctx.decide(ok, rule, key, fn.loc,
                   "comparison with %s selects between %s and %s" % (const_name, wide, narrow),
                   "negating a %s is no longer guarded by a comparison with %s that widens to %s"
                   % (variant, const_name, wide))
    ctx.require(rule, 2)


def _expected_chain(ops):
    """the tree the ranks prescribe for x ops[0] x ops[1] x ... (left-associative, tighter binds first)"""
    operands = ["x"]
    stack = []
    for op in ops:
        while stack and RANK[stack[-1]] >= RANK[op]:
            o = stack.pop()
            r = operands.pop()
            l = operands.pop()
            operands.append("(%s %s %s)" % (l, o, r))
        stack.append(op)
        operands.append("x")
    while stack:
        o = stack.pop()
        r = operands.pop()
        l = operands.pop()
        operands.append("(%s %s %s)" % (l, o, r))
    return operands[0]


def _canon(tree):
    """a printed tree with chains of the same associative operator (AND .. AND, OR .. OR) regrouped to the left:
    their grouping is not observable"""
    toks = tree.replace("(", " ( ").replace(")", " ) ").split()
    pos = [0]

    def parse():
        t = toks[pos[0]]
        if t == "(":
            pos[0] += 1
            l = parse()
            op = toks[pos[0]]
            pos[0] += 1
            r = parse()
            pos[0] += 1      # ")"
            return (op, l, r)
        pos[0] += 1
        return t

    def flat(t, op):
        if isinstance(t, tuple) and t[0] == op:
            return flat(t[1], op) + flat(t[2], op)
        return [norm(t)]

    def norm(t):
        if not isinstance(t, tuple):
            return t
        if t[0] in ("And", "Or"):
            items = flat(t, t[0])
            acc = items[0]
            for x in items[1:]:
                acc = (t[0], acc, x)
            return acc
        return (t[0], norm(t[1]), norm(t[2]))

    def show(t):
        return "(%s %s %s)" % (show(t[1]), t[0], show(t[2])) if isinstance(t, tuple) else t
    try:
        return show(norm(parse()))
    except (IndexError, ValueError):
        return tree


def r10_binary_chains(ctx, rule="C10.R10"):
    """`a op1 b op2 c op3 d`: the parser reads the right side first (as the already grouped tree of
    `b op2 c op3 d`) and then calls binary_expr, which rotates the new operator down the left spine of that tree
    while it does not bind looser.  R1 decides the rotation *predicate* on every pair of operators; here the
    rotation itself is interpreted (TagFlow) on every chain of three operators, one per precedence level: the
    right side is built by the same function, innermost first, and the resulting tree is compared with the one
    the ranks prescribe.  A rotation that re-inserts its left part without ordering it again is right for two
    operators and wrong for `a AND b OR c OR d`."""
    prog = ctx.prog
    eng = tf.Engine(prog)
    eng.trunc_depth = 12
    fns = [f for f in prog.fns.values() if f.name == "binary_expr" and f.impl
           and f.impl["self_ty"].endswith("Positioned<expr::types::Expression>")]
    if len(fns) != 1:
        raise CheckError("anchor binary_expr: %d matches" % len(fns))
    fn = fns[0]
    # the function the expression parser calls: binary_expr itself, or the one wrapper around it
    below = prog.reachable_from([fn.id])
    outer = [prog.fns[c] for c in prog.callers().get(fn.id, ()) if c not in below and c in prog.fns]
    wrappers = [g for g in outer if g.impl and g.impl.get("self_ty") == fn.impl.get("self_ty") and g.kind != "closure"]
    def param_order(g):
        order = []
        for i in range(1, g.argc + 1):
            ty = g.body.locals[i]["ty"]
            if ty.endswith("::Operator"):
                order.append("op")
            elif "Positioned<" in ty:
                order.append("l" if "l" not in order else "r")
            else:
                order.append("pos")
        return order
    # a wrapper takes what binary_expr takes (two operands, the operator, the position), in any order
    wrappers = [g for g in wrappers if sorted(param_order(g)) == ["l", "op", "pos", "r"]]
    entry, order = fn, param_order(fn)
    if order != ["l", "op", "r", "pos"]:
        raise CheckError("%s: parameters of binary_expr not understood (%s)" % (rule, order))
    if len(wrappers) == 1:
        entry = wrappers[0]
        order = param_order(entry)
    elif wrappers:
        raise CheckError("%s: binary_expr is reached through several wrappers %s" % (rule, [g.name for g in wrappers]))

    def call(l, op, r):
        a = {"l": l, "op": tf.Tag(OP, op), "r": r, "pos": tf.TOP}
        return eng.summary(entry, tuple(a[k] for k in order))

    def leaf(kind="IntegerLiteral"):
        if kind == "Parenthesis":
            return eng.make(POS, "Positioned", {0: eng.make(EXPR, "Parenthesis", {0: leaf()})})
        return eng.make(POS, "Positioned", {0: eng.make(EXPR, kind)})

    reps = {}
    for op, r in sorted(RANK.items()):
        reps.setdefault(r, op)
    ops_all = [reps[r] for r in sorted(reps)]
    # both operators of a level where a level has two that differ in kind (And/Or are separate levels already)
    n = 0
    bad = 0

    def build(ops, kinds=None):
        """x ops[0] (x ops[1] (...)) as the parser builds it: right side first"""
        if not ops:
            return [leaf(kinds[-1] if kinds else "IntegerLiteral")]
        rights = build(ops[1:], kinds)
        out = []
        for r in rights:
            out.extend(call(leaf(kinds[len(kinds) - len(ops) - 1] if kinds else "IntegerLiteral"), ops[0], r))
        return out

    import itertools
    chains = list(itertools.product(ops_all, repeat=3))
    if ctx.tier == "thorough":
        # every operator (not one per level) in chains of three, and chains of four over the levels
        chains = list(itertools.product(sorted(RANK), repeat=3)) + list(itertools.product(ops_all, repeat=4))
    for ops in chains:
        n += 1
        got = sorted({_tree(r) for r in build(list(ops))})
        want = _expected_chain(list(ops))
        key = "%s:%s" % (rule, ",".join(ops))
        if any("?" in g for g in got) or not got:
            ctx.unknown(rule, key, fn.loc, "abstract result %s" % got)
            continue
        if sorted({_canon(g) for g in got}) != [_canon(want)]:
            bad += 1
            ctx.violation(rule, key, fn.loc, "`x %s x` is built as %s, the ranks prescribe %s" % (" x ".join(ops), got, want))
        else:
            ctx.ok(rule, key, fn.loc, want)
    # the kind of an operand does not change the grouping: `(a) * b + c` groups like `a * b + c`.  Every chain of
    # two operators with every choice of plain / parenthesised / call operands
    leaf_kinds = ("IntegerLiteral", "Parenthesis", "FunctionCall", "Variable")
    m = 0
    for ops in itertools.product(ops_all, repeat=2):
        for kinds in itertools.product(leaf_kinds if ctx.tier == "thorough" else leaf_kinds[:2], repeat=3):
            if all(k == "IntegerLiteral" for k in kinds):
                continue
            m += 1
            got = sorted({_tree(r) for r in build(list(ops), list(kinds))})
            want = _expected_chain(list(ops))
            key = "%s:%s:%s" % (rule, ",".join(ops), ",".join(k[:3] for k in kinds))
            if any("?" in g for g in got) or not got:
                ctx.unknown(rule, key, entry.loc, "abstract result %s" % got)
            elif sorted({_canon(g) for g in got}) != [_canon(want)]:
                ctx.violation(rule, key, entry.loc, "`x %s x` with operands of kinds %s is built as %s, the ranks prescribe %s: "
                              "the kind of an operand (`(1 + 2) * 3 + 4`) changes how the operators around it are grouped"
                              % (" x ".join(ops), list(kinds), got, want))
            else:
                ctx.ok(rule, key, entry.loc, want)
    ctx.analysed_units(rule, chains=n, operand_kind_chains=m, levels=ops_all, entry=entry.path)
    ctx.require(rule, 100)


def r11_minus_folding_walks_the_whole_tree(ctx, rule="C10.R11"):
    """`-32768` and `-&H8000` are literals: the parser folds a unary minus into the literal behind it, wherever in the tree
    the rotation of the operators has left the minus.  The fold is a recursive rewrite of the tree; wherever it rebuilds a
    node that has operands (a binary or unary expression, a parenthesis), each operand it puts into the new node is the
    result of the rewrite applied to the old operand - on every path, whatever the operand looks like.  An operand
    carried over as it is hides every minus below it (`-&H8000 + 1 - 1`: the minus ends up two levels down the left
    spine and is applied at run time to a value that has no positive counterpart)."""
    prog = ctx.prog
    try:
        f = prog.method("Expression", "simplify_unary_minus_literals")
    except KeyError as e:
        raise CheckError("%s: anchor %s" % (rule, e))
    family = {f.name}
    for g in prog.methods_of("Expression"):
        if any((t.get("res") or mir.callee_of(t)) == f.id for _b, t in g.body.calls()):
            family.add(g.name)
    family |= {"unary_minus"}
    body = f.body
    pv = mir.Prov(body)
    n = 0
    for b, blk in enumerate(body.blocks):
        if blk.get("c"):
            continue
        for st in blk["s"]:
            r = st.get("r", {})
            if st["k"] != "assign" or r.get("k") != "agg" or not (r.get("adt") or "").endswith("::Expression"):
                continue
            if r.get("variant") not in ("BinaryExpression", "UnaryExpression", "Parenthesis"):
                continue
            for i, o in enumerate(r["ops"]):
                pl = mir.op_place(o)
                if pl is None or "Box<" not in body.locals[pl[0]]["ty"] or "Expression" not in body.locals[pl[0]]["ty"]:
                    continue
                n += 1
                org = pv.of_operand(o)
                base = mir.strip_all(org)
                # the rewrite may be wrapped (Box::new(x.at_pos(pos)) when the helper is inlined): what counts is that the
                # operand is made from a call of the rewrite family, not carried over
                ok = mir.origin_mentions(org, lambda x: x[0] == "call" and str(x[1]).split("::")[-1] in family)
                ctx.decide(ok, rule, "%s:%s:operand%d" % (rule, r["variant"], i), "%s:%s" % (f.file, st.get("ln")),
                           "operand = %s(old operand)" % (str(base[1]).split("::")[-1] if base[0] == "call" else "?"),
                           "simplify_unary_minus_literals rebuilds a %s whose operand %d is %s, not the rewrite of the old operand on "
                           "every path: a unary minus below it is never folded into its literal, so `-&H8000 + 1 - 1` negates 32768 "
                           "at run time (Overflow) instead of reading the literal -32768" % (r["variant"], i, mir.show_origin(org)[:70]))
    ctx.analysed_units(rule, rebuilt_operands=n, rewrite_family=sorted(family))
    ctx.require(rule, 4)


def run(ctx):
    common.install(ctx)
    eng = tf.Engine(ctx.prog)
    r1_binary_flip(ctx, eng)
    r2_unary_flip(ctx, eng)
    r3_negative_literal_guard(ctx)
    from . import c06
    c06.r3_integer_constructors(ctx, "C10.R5", crates=("rusty_parser",),
                                adt="rusty_parser::expr::types::Expression", floor=2)
    r4_decimal_total(ctx, eng)
    r6_unary_over_chains(ctx)
    r7_no_double_rounding(ctx)
    from . import c09
    c09.r14_parenthesis_is_only_a_primary(ctx, "C10.R8")
    # a literal whose text spells a number beyond the range of its type is an error, not an infinity
    c06.r14_floats_from_outside_are_finite(ctx, "C10.R9", crate="rusty_parser", module="::expr::", floor=2)
    r10_binary_chains(ctx)
    r11_minus_folding_walks_the_whole_tree(ctx)
    if eng.imprecise:
        ctx.notes.append("abstract interpreter imprecision: %s" % eng.imprecise[:5])
