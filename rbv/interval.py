"""Interval dataflow over MIR for the integer payloads of rusty_variant::Variant (C06.R3).

Forward analysis per function body, intervals on integer locals, refinement on comparisons with
constants at SwitchInt edges, join = hull, widening after 3 visits.  Assumption (the invariant
being proved inductively): a payload read out of an existing Variant::VInteger / VLong is in the
QBasic range of that type.  The obligation is raised where a payload that was *computed by
arithmetic* is wrapped into VInteger / VLong."""
from . import mir

INT_MIN, INT_MAX = -32768, 32767
LONG_MIN, LONG_MAX = -2147483648, 2147483647
TYPE_RANGE = {"i8": (-128, 127), "i16": (-32768, 32767), "i32": (-2**31, 2**31 - 1),
              "i64": (-2**63, 2**63 - 1), "isize": (-2**63, 2**63 - 1),
              "u8": (0, 255), "u16": (0, 65535), "u32": (0, 2**32 - 1), "u64": (0, 2**64 - 1),
              "usize": (0, 2**64 - 1)}
PAYLOAD_RANGE = {"VInteger": (INT_MIN, INT_MAX), "VLong": (LONG_MIN, LONG_MAX),
                 "IntegerLiteral": (INT_MIN, INT_MAX), "LongLiteral": (LONG_MIN, LONG_MAX)}
VARIANT = "rusty_variant::variant::Variant"
EXPRESSION = "rusty_parser::expr::types::Expression"
RANGED_ADTS = {VARIANT: ("VInteger", "VLong"), EXPRESSION: ("IntegerLiteral", "LongLiteral")}

TOP = ("top",)


def I(lo, hi, arith=False):
    return ("int", lo, hi, arith)


def is_int(v):
    return v[0] == "int"


def hull(a, b):
    if a == b:
        return a
    if is_int(a) and is_int(b):
        return I(min(a[1], b[1]), max(a[2], b[2]), a[3] or b[3])
    if a[0] == "tup" and b[0] == "tup" and len(a[1]) == len(b[1]):
        return ("tup", tuple(hull(x, y) for x, y in zip(a[1], b[1])))
    if a[0] == "opt" and b[0] == "opt":
        return ("opt", hull(a[1], b[1]))
    return TOP


def arith(op, a, b):
    if not (is_int(a) and is_int(b)):
        return TOP
    if op in ("Add", "AddWithOverflow", "AddUnchecked"):
        return I(a[1] + b[1], a[2] + b[2], True)
    if op in ("Sub", "SubWithOverflow", "SubUnchecked"):
        return I(a[1] - b[2], a[2] - b[1], True)
    if op in ("Mul", "MulWithOverflow", "MulUnchecked"):
        c = [a[1] * b[1], a[1] * b[2], a[2] * b[1], a[2] * b[2]]
        return I(min(c), max(c), True)
    if op == "Rem":
        m = max(abs(b[1]), abs(b[2]))
        if m == 0:
            return TOP
        lo = -(m - 1) if a[1] < 0 else 0
        hi = (m - 1) if a[2] > 0 else 0
        return I(max(lo, -max(abs(a[1]), abs(a[2]))), min(hi, max(abs(a[1]), abs(a[2]))), True)
    if op == "Div":
        if b[1] <= 0 <= b[2]:
            m = max(abs(a[1]), abs(a[2]))
            return I(-m, m, True)
        c = [int(a[1] / b[1]), int(a[1] / b[2]), int(a[2] / b[1]), int(a[2] / b[2])]
        return I(min(c), max(c), True)
    return TOP


class Analysis:
    def __init__(self, prog, fn, body=None):
        self.prog = prog
        self.fn = fn
        self.body = body or fn.body
        self.sites = []    # (bb, line, variant, interval value)
        self.casts = []    # (target type, source interval) for every IntToInt cast seen (last visit)
        self.returns = []  # (value assigned to _0, env at that point)
        self._derefs_param = {}   # local -> True when it was assigned `*_1` (copy of the by-ref argument)

    def local_ty(self, l):
        return self.body.locals[l]["ty"]

    def type_top(self, ty):
        r = TYPE_RANGE.get(ty)
        return I(r[0], r[1]) if r else TOP

    def read(self, env, place):
        l, proj = place
        v = env.get(l)
        # payload of an existing Variant: (x as VInteger).0
        for i, e in enumerate(proj):
            if isinstance(e, dict) and e.get("v") in RANGED_ADTS.get(e.get("a"), ()) and e.get("f") == 0:
                lo, hi = PAYLOAD_RANGE[e["v"]]
                return I(lo, hi)
        if v is None:
            v = TOP
        for e in proj:
            if e == "*":
                continue
            if isinstance(e, dict) and "f" in e and v[0] == "tup" and e["f"] < len(v[1]):
                v = v[1][e["f"]]
            elif isinstance(e, dict) and "d" in e:
                continue
            elif isinstance(e, dict) and "f" in e and v[0] == "opt" and e["f"] == 0:
                v = v[1]
            else:
                return TOP
        return v

    def root(self, env, l):
        """Follow `_a = copy _b` chains: the local whose value l is a copy of."""
        seen = set()
        while ("copyof", l) in env and l not in seen:
            seen.add(l)
            l = env[("copyof", l)]
        return l

    def operand(self, env, op):
        p = mir.op_place(op)
        if p is not None:
            v = self.read(env, p)
            if v == TOP and not p[1]:
                return self.type_top(self.local_ty(p[0]))
            return v
        k = op.get("k")
        if k and "int" in k:
            return I(k["int"], k["int"])
        if k and "promoted" in k and k["promoted"] < len(self.fn.promoted):
            return self.promoted_value(self.fn.promoted[k["promoted"]])
        return TOP

    def promoted_value(self, body):
        """A promoted constant: recognise RangeInclusive { start, end, .. } / RangeInclusive::new(lo, hi)."""
        # locals that hold an integer constant, possibly widened (`MIN_INTEGER as i64`)
        consts = {}
        for blk in body.blocks:
            for s in blk["s"]:
                if s["k"] == "assign" and not s["p"][1] and s["r"]["k"] in ("use", "cast") \
                        and s["r"].get("ck") in (None, "IntToInt") and isinstance(s["r"].get("o"), dict):
                    k = s["r"]["o"].get("k") or {}
                    if "int" in k:
                        consts[s["p"][0]] = k["int"]

        def val(o):
            k = o.get("k") or {}
            if "int" in k:
                return k["int"]
            p = mir.op_place(o)
            return consts.get(p[0]) if p is not None and not p[1] else None
        for blk in body.blocks:
            for s in blk["s"]:
                if s["k"] == "assign" and s["r"]["k"] == "agg" and s["r"].get("adt", "").endswith("RangeInclusive"):
                    ops = [val(o) for o in s["r"]["ops"][:2]]
                    if None not in ops:
                        return ("range", ops[0], ops[1])
            t = blk["t"]
            if t["k"] == "call" and (t.get("cpath") or "").endswith("RangeInclusive::<Idx>::new"):
                ops = [val(a) for a in t["args"][:2]]
                if None not in ops:
                    return ("range", ops[0], ops[1])
        return TOP

    def rvalue(self, env, r, dest):
        k = r["k"]
        if k == "use":
            p = mir.op_place(r["o"])
            if p is not None and p[0] == 1 and p[1] == ["*"] and dest is not None:
                self._derefs_param[dest] = True
                v = env.get(("deref", 1))
                if v is not None:
                    return v
                tr = TYPE_RANGE.get(self.local_ty(dest))
                return I(tr[0], tr[1]) if tr else TOP
            return self.operand(env, r["o"])
        if k in ("copyderef",):
            return self.read(env, r["p"])
        if k == "ref":
            return self.read(env, r["p"])
        if k == "bin":
            a = self.operand(env, r["a"])
            b = self.operand(env, r["b"])
            op = r["op"]
            if op in ("Lt", "Le", "Gt", "Ge", "Eq", "Ne"):
                pa = mir.op_place(r["a"])
                pb = mir.op_place(r["b"])
                la = self.root(env, pa[0]) if pa is not None and not pa[1] else None
                lb = self.root(env, pb[0]) if pb is not None and not pb[1] else None
                return ("cmp", op, la, a, lb, b)
            v = arith(op, a, b)
            if op.endswith("WithOverflow"):
                return ("tup", (v, TOP))
            return v
        if k == "un":
            a = self.operand(env, r["o"])
            if r["op"] == "Neg" and is_int(a):
                return I(-a[2], -a[1], True)
            if r["op"] == "Not" and a[0] == "cmp":
                inv = {"Lt": "Ge", "Le": "Gt", "Gt": "Le", "Ge": "Lt", "Eq": "Ne", "Ne": "Eq"}
                return ("cmp", inv[a[1]]) + a[2:]
            return TOP
        if k == "cast":
            a = self.operand(env, r["o"])
            ck = r["ck"]
            if ck == "IntToInt" and is_int(a):
                self.casts.append((r["ty"], a))
                tr = TYPE_RANGE.get(r["ty"])
                if tr and tr[0] <= a[1] and a[2] <= tr[1]:
                    return a
                # a narrowing `as` may wrap: the result is only known to fit the target machine type
                return I(tr[0], tr[1], True) if tr else TOP
            if ck == "FloatToInt":
                tr = TYPE_RANGE.get(r["ty"])
                return I(tr[0], tr[1]) if tr else TOP
            return TOP
        if k == "agg":
            ops = [self.operand(env, o) for o in r["ops"]]
            if r.get("a") == "adt" and r["variant"] in RANGED_ADTS.get(r.get("adt"), ()) and ops:
                self.sites.append((None, None, r["variant"], ops[0]))
            if r.get("a") == "tuple":
                return ("tup", tuple(ops))
            if r.get("a") == "adt" and r.get("adt") == "core::option::Option" and r.get("variant") == "Some" and ops:
                return ("opt", ops[0])
            return TOP
        return TOP

    STD_ARITH = {"checked_neg": "neg", "wrapping_neg": "neg", "overflowing_neg": "neg", "abs": "abs",
                 "checked_add": "Add", "wrapping_add": "Add", "saturating_add": "Add",
                 "checked_sub": "Sub", "wrapping_sub": "Sub", "saturating_sub": "Sub",
                 "checked_mul": "Mul", "wrapping_mul": "Mul", "saturating_mul": "Mul",
                 "checked_rem": "Rem", "wrapping_rem": "Rem", "rem_euclid": "Rem",
                 "checked_div": "Div", "wrapping_div": "Div"}

    def call(self, env, t, b):
        cp = t.get("cpath") or ""
        name = cp.split("::")[-1]
        args = [self.operand(env, a) for a in t["args"]]
        if cp.endswith("RangeInclusive::<Idx>::new") and len(args) == 2 and is_int(args[0]) and is_int(args[1]):
            return ("range", args[0][1], args[1][2])
        if name == "contains" and "RangeInclusive" in cp and len(args) == 2 and args[0][0] == "range":
            p = mir.op_place(t["args"][1])
            la = self.root(env, p[0]) if p is not None else None
            if la is not None:
                # the needle is usually `&*param`: refine the pointee
                d = self.body.single_def(p[0])
                if d is not None and d[1] != "T" and d[2]["r"]["k"] == "ref" and d[2]["r"]["p"][1] == ["*"] \
                        and d[2]["r"]["p"][0] <= self.fn.argc:
                    la = ("deref", d[2]["r"]["p"][0])
                return ("inrange", la, args[0][1], args[0][2])
        callee = self.prog.fns.get(mir.callee_of(t))
        if callee is not None and callee.kind != "const" and callee.argc == 1 and \
                self.body.locals[t["d"][0]]["ty"] == "bool" and len(t["args"]) == 1:
            ps = pred_summary(self.prog, callee)
            p = mir.op_place(t["args"][0])
            if ps is not None and p is not None:
                la = self.root(env, p[0])
                d = self.body.single_def(p[0])
                if d is not None and d[1] != "T" and d[2]["r"]["k"] == "ref":
                    rp = d[2]["r"]["p"]
                    if not rp[1]:
                        la = self.root(env, rp[0])
                    elif rp[1] == ["*"] and rp[0] <= self.fn.argc:
                        la = ("deref", rp[0])
                return ("inrange", la, ps[0], ps[1])
            if p is not None:
                # an unknown predicate tells nothing about its argument
                return TOP
        dest_ty = self.local_ty(t["d"][0])
        if cp.startswith("core::num::") or cp.startswith("std::") and "::num::" in cp or \
                (len(cp.split("::")) >= 2 and cp.split("::")[-2].split("<")[0] in TYPE_RANGE):
            kind = self.STD_ARITH.get(name)
            if kind and args and is_int(args[0]):
                a = args[0]
                if kind == "neg":
                    v = I(-a[2], -a[1], True)
                elif kind == "abs":
                    v = I(0, max(abs(a[1]), abs(a[2])), True)
                else:
                    v = arith(kind, a, args[1]) if len(args) > 1 else TOP
                if is_int(v):
                    # the machine type bounds what a checked/wrapping op can return
                    ity = cp.split("::")[-2].split("<")[0]
                    tr = TYPE_RANGE.get(ity)
                    if tr:
                        v = I(max(v[1], tr[0]), min(v[2], tr[1]), True)
                if name.startswith("checked_"):
                    return ("opt", v)
                return v
        if name in ("map",) and "Option" in cp and len(t["args"]) == 2:
            k = t["args"][1].get("k") or {}
            fnid = k.get("fn") or ""
            for variant in PAYLOAD_RANGE:
                if (fnid.endswith("::Variant::%s::{constructor#0}" % variant)
                        or fnid.endswith("::Expression::%s::{constructor#0}" % variant)) and args[0][0] == "opt":
                    self.sites.append((b, t.get("ln"), variant, args[0][1]))
            return TOP
        if name in ("ok_or", "ok_or_else", "unwrap", "expect", "unwrap_or") and args and args[0][0] == "opt":
            return args[0][1] if name in ("unwrap", "expect") else TOP
        return TOP

    def refine(self, env, cond, truth):
        """cond = ('cmp', op, la, a, lb, b): narrow la / lb when the other side is a constant."""
        if cond[0] == "inrange":
            if not truth:
                return env
            env = dict(env)
            _k, la, lo, hi = cond
            for l in [la] + [k[1] for k in env if isinstance(k, tuple) and k[0] == "copyof" and env[k] == la]:
                cur = env.get(l)
                if cur is None or not is_int(cur):
                    tr = TYPE_RANGE.get(self.local_ty(l).lstrip("&")) if isinstance(l, int) else None
                    cur = I(tr[0], tr[1]) if tr else I(lo, hi)
                env[l] = I(max(cur[1], lo), min(cur[2], hi), cur[3])
            return env
        if cond[0] != "cmp":
            return env
        _c, op, la, a, lb, b = cond
        if not truth:
            op = {"Lt": "Ge", "Le": "Gt", "Gt": "Le", "Ge": "Lt", "Eq": "Ne", "Ne": "Eq"}[op]
        env = dict(env)

        def narrow(v, op, c):
            if not (is_int(v) and is_int(c)):
                return v
            lo, hi = v[1], v[2]
            if op == "Lt":
                hi = min(hi, c[2] - 1)
            elif op == "Le":
                hi = min(hi, c[2])
            elif op == "Gt":
                lo = max(lo, c[1] + 1)
            elif op == "Ge":
                lo = max(lo, c[1])
            elif op == "Eq":
                lo, hi = max(lo, c[1]), min(hi, c[2])
            elif op == "Ne" and c[1] == c[2]:
                if lo == c[1]:
                    lo += 1
                if hi == c[1]:
                    hi -= 1
            return I(lo, hi, v[3])
        def assign(l, v):
            env[l] = v
            for k in list(env):
                if isinstance(k, tuple) and k[0] == "copyof" and env[k] == l:
                    env[k[1]] = v
        if la is not None:
            assign(la, narrow(a if is_int(a) else env.get(la, TOP), op, b))
        if lb is not None:
            flip = {"Lt": "Gt", "Le": "Ge", "Gt": "Lt", "Ge": "Le", "Eq": "Eq", "Ne": "Ne"}[op]
            assign(lb, narrow(b if is_int(b) else env.get(lb, TOP), flip, a))
        return env

    def run(self):
        body = self.body
        states = {0: {}}
        visits = {}
        work = [0]
        site_vals = {}
        while work:
            b = work.pop()
            env = dict(states.get(b, {}))
            visits[b] = visits.get(b, 0) + 1
            blk = body.blocks[b]
            for i, s in enumerate(blk["s"]):
                if s["k"] != "assign":
                    continue
                n0 = len(self.sites)
                v = self.rvalue(env, s["r"], s["p"][0])
                for j in range(n0, len(self.sites)):
                    _b, _l, variant, val = self.sites[j]
                    key = (b, i, variant)
                    site_vals[key] = (s.get("ln"), hull(site_vals[key][1], val) if key in site_vals else val)
                del self.sites[n0:]
                if not s["p"][1]:
                    d = s["p"][0]
                    if d == 0:
                        self.returns.append((v, dict(env)))
                    env[d] = v
                    # d is redefined: forget copies of / from it
                    for k in [k for k in env if isinstance(k, tuple) and k[0] == "copyof" and (k[1] == d or env[k] == d)]:
                        del env[k]
                    if s["r"]["k"] == "use":
                        sp = mir.op_place(s["r"]["o"])
                        if sp is not None and not sp[1]:
                            env[("copyof", d)] = sp[0]
                        elif sp is not None and sp[1] == ["*"] and sp[0] <= self.fn.argc:
                            # every read of *param denotes the same value
                            env[("copyof", d)] = ("deref", sp[0])
                            if ("deref", sp[0]) in env:
                                env[d] = env[("deref", sp[0])]
                elif s["p"][0] in env:
                    env[s["p"][0]] = TOP
            t = blk["t"]
            succs = []
            if t["k"] == "call":
                n0 = len(self.sites)
                v = self.call(env, t, b)
                for j in range(n0, len(self.sites)):
                    _b, line, variant, val = self.sites[j]
                    key = (b, "T", variant)
                    site_vals[key] = (line, hull(site_vals[key][1], val) if key in site_vals else val)
                del self.sites[n0:]
                if not t["d"][1]:
                    if t["d"][0] == 0:
                        self.returns.append((v, dict(env)))
                    env[t["d"][0]] = v
                if t.get("t") is not None:
                    succs.append((t["t"], env))
            elif t["k"] == "switch":
                p = mir.op_place(t["o"])
                cond = env.get(p[0]) if p is not None and not p[1] else None
                for val, tgt in t["ts"]:
                    e2 = env
                    if cond is not None and cond[0] in ("cmp", "inrange") and t.get("ty") == "bool":
                        e2 = self.refine(env, cond, bool(val))
                    succs.append((tgt, e2))
                if not mir.block_is_unreachable(body, t["else"]):
                    e2 = env
                    if cond is not None and cond[0] in ("cmp", "inrange") and t.get("ty") == "bool" and len(t["ts"]) == 1:
                        e2 = self.refine(env, cond, not bool(t["ts"][0][0]))
                    succs.append((t["else"], e2))
            elif t["k"] == "assert":
                e2 = env
                p = mir.op_place(t["o"])
                cond = env.get(p[0]) if p is not None and not p[1] else None
                succs.append((t["t"], e2))
            else:
                for s2 in body.succ(b):
                    succs.append((s2, env))
            for s2, e2 in succs:
                old = states.get(s2)
                if old is None:
                    new = dict(e2)
                else:
                    new = {}
                    for l in set(old) | set(e2):
                        if isinstance(l, tuple) and l[0] == "copyof":
                            if l in old and l in e2 and old[l] == e2[l]:
                                new[l] = old[l]
                            continue
                        if isinstance(l, tuple):
                            if l in old and l in e2:
                                new[l] = hull(old[l], e2[l])
                            continue
                        if l in old and l in e2:
                            h = hull(old[l], e2[l])
                            if visits.get(s2, 0) > 3 and is_int(h) and h != old[l]:
                                tr = TYPE_RANGE.get(self.local_ty(l))
                                h = I(tr[0], tr[1], h[3]) if tr else TOP
                            new[l] = h
                        # a local defined on one path only is unknown at the join
                if new != old:
                    states[s2] = new
                    if s2 not in work:
                        work.append(s2)
        return site_vals


_PRED_MEMO = {}


def pred_summary(prog, fn, depth=0):
    """For a one-argument bool function: (lo, hi) such that a `true` result implies the argument
    (looked through a reference) lies in [lo, hi]; None when nothing is implied."""
    if fn.id in _PRED_MEMO:
        return _PRED_MEMO[fn.id]
    _PRED_MEMO[fn.id] = None
    if depth > 3 or fn.argc != 1:
        return None
    an = Analysis(prog, fn)
    # the parameter (or what it points to): its own local is 1; derefs read through
    an.run()
    lo = hi = None
    ok = True
    for v, env in an.returns:
        e2 = None
        if v[0] in ("cmp", "inrange"):
            e2 = an.refine(env, v, True)
        elif is_int(v) and v[1] == v[2] == 0:
            continue            # returns false
        elif is_int(v) and v[1] == v[2] == 1:
            e2 = env
        else:
            ok = False
            break
        # the argument: local 1 or a copy of *local 1
        cands = [e2.get(1), e2.get(("deref", 1))] + [e2.get(k[1]) for k in e2 if isinstance(k, tuple) and k[0] == "copyof" and e2[k] in (1, ("deref", 1))]
        cands += [val for l, val in e2.items() if isinstance(l, int) and an._derefs_param.get(l)]
        ints = [c for c in cands if c is not None and is_int(c)]
        if not ints:
            ok = False
            break
        best = min(ints, key=lambda c: c[2] - c[1])
        lo = best[1] if lo is None else min(lo, best[1])
        hi = best[2] if hi is None else max(hi, best[2])
    res = (lo, hi) if ok and lo is not None else None
    _PRED_MEMO[fn.id] = res
    return res
