"""VM model derived from Interpreter::interpret_one: per-instruction net effect on each stack
(DESIGN.md appendix B is the frozen cross-check: tables/stack_effects.json)."""
import json
import os

from . import flow, mir
from .core import CheckError, VERIF

DIMS = ["value", "reg", "ctx", "varpath", "ret", "gosub", "byref", "trace"]
FIELD_DIM = {"value_stack": "value", "register_stack": "reg", "states": "ctx",
             "var_path_stack": "varpath", "return_address_stack": "ret",
             "go_sub_address_stack": "gosub", "by_ref_stack": "byref", "stacktrace": "trace"}
PLUS = ("push", "push_back", "push_front", "insert")
MINUS = ("pop", "pop_back", "pop_front", "remove", "swap_remove")
CLOBBER = ("clear", "truncate", "drain", "append", "retain", "split_off", "resize", "extend")


def unit(dim, k):
    v = [0] * len(DIMS)
    v[DIMS.index(dim)] = k
    return tuple(v)


def tracked_receiver(pv, t):
    """dimension name when the receiver of call t is one of the VM's stacks."""
    if not t["args"]:
        return None
    o = mir.strip_refs(pv.of_operand(t["args"][0]))
    if o[0] == "field" and o[2] in FIELD_DIM:
        return FIELD_DIM[o[2]]
    if o[0] == "call":
        name = o[1].split("::")[-1]
        if name in FIELD_DIM:
            return FIELD_DIM[name]
    return None


class VM:
    def __init__(self, prog):
        self.prog = prog
        self.clobbers = []
        self.cf = flow.CounterFlow(prog, len(DIMS), self._call_effect)

    def _call_effect(self, fn, body, b, t, pv):
        name = mir.callee_path(t).split("::")[-1]
        dim = tracked_receiver(pv, t)
        callee = self.prog.fns.get(mir.callee_of(t))
        if dim is not None and callee is None:
            if name in PLUS:
                return ("delta", [unit(dim, 1)])
            if name in ("pop", "pop_back", "pop_front"):
                # Option-returning: one element less exactly when the result is Some
                return ("delta_tagged", [(unit(dim, -1), "Some"), (tuple([0] * len(DIMS)), "None")])
            if name in MINUS:
                return ("delta", [unit(dim, -1)])
            if name in CLOBBER:
                self.clobbers.append((fn.path, dim, name))
                return None
            return None
        if callee is not None and callee.crate == "rusty_basic" and callee.kind != "const":
            if ".built_ins::" in "." + callee.path or "::built_ins::" in callee.path:
                return None   # built-ins run inside the PushStack/PopStack bracket; opaque here
            return ("callee", callee, flow.const_args_of(t))
        return None

    def instruction_effects(self):
        """Instruction variant -> sorted list of net vectors (success paths of its arm)."""
        prog = self.prog
        one = prog.method("Interpreter", "interpret_one")
        sws = [s for s in mir.enum_switches(prog, one.body) if s.adt.endswith("::Instruction")]
        if not sws:
            raise CheckError("interpret_one: no match over Instruction")
        sw = max(sws, key=lambda s: len(s.arms))
        variants = prog.variants(sw.adt)
        out = {}
        for v in variants:
            tgt = sw.arms.get(v, sw.otherwise)
            if tgt is None:
                raise CheckError("interpret_one has no arm for Instruction::%s" % v)
            region = mir.arm_region(one.body, sw.bb, tgt)
            res = self.cf.analyze(one, start=tgt, region=region)
            ok = sorted({vec for vec, err in res.exits if not err})
            out[v] = ok
        return out, one


def effects_as_dict(vecs):
    out = []
    for v in vecs:
        out.append({d: k for d, k in zip(DIMS, v) if k})
    return out


def frozen_table():
    p = os.path.join(VERIF, "tables", "stack_effects.json")
    with open(p) as fh:
        return json.load(fh)
