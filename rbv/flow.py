"""Counter dataflow: for a function (or a region of it) compute the set of net effects on a
vector of counters over all non-panicking paths, with function summaries (memoised, fixpoint for
recursion) and specialisation on constant bool/int arguments.  Used for VM stack effects per
instruction and for the depth analysis of the generator's templates (C15.R4)."""
from . import mir

CAP = 6


def vadd(a, b):
    return tuple(x + y for x, y in zip(a, b))


class Result:
    def __init__(self):
        self.at = {}           # bb -> set of (vec, err) at block entry
        self.exits = set()     # (vec, err) at return
        self.unbounded = False
        self.sites = []        # (bb, event, set of vec at the site) recorded by the client


class CounterFlow:
    def __init__(self, prog, ndims, call_effect, follow=lambda fn: True):
        """call_effect(fn, body, b, t, pv) -> ('delta', [vec...]) | ('callee', Fn, const_args) |
        None (no effect).  follow(fn): whether to summarise workspace callee fn."""
        self.prog = prog
        self.n = ndims
        self.zero = tuple([0] * ndims)
        self.call_effect = call_effect
        self.follow = follow
        self.memo = {}
        self.in_progress = {}
        self.stack = []
        self.lowlink = []
        self.unbounded_fns = set()

    # ------------------------------------------------------------------
    def summary(self, fn, const_args=()):
        """frozenset of net vectors over success (non-error, non-panicking) paths.  Recursive
        cycles are solved by fixpoint iteration from the empty set at the cycle head; a value
        computed while depending on an unfinished head is not memoised."""
        key = (fn.id, tuple(const_args))
        if key in self.memo:
            return self.memo[key]
        if key in self.in_progress:
            idx = self.stack.index(key)
            self.lowlink[-1] = min(self.lowlink[-1], idx)
            return self.in_progress[key]
        my_idx = len(self.stack)
        self.stack.append(key)
        self.in_progress[key] = frozenset()
        low = my_idx
        while True:
            self.lowlink.append(my_idx)
            res = self.analyze(fn, const_args)
            low = min(low, self.lowlink.pop())
            ok = frozenset(v for v, err in res.exits if not err)
            if res.unbounded:
                self.unbounded_fns.add(key)
            if ok == self.in_progress[key]:
                break
            self.in_progress[key] = ok
        del self.in_progress[key]
        self.stack.pop()
        if low >= my_idx:
            self.memo[key] = ok
        elif self.lowlink:
            self.lowlink[-1] = min(self.lowlink[-1], low)
        return ok

    # ------------------------------------------------------------------
    def analyze(self, fn, const_args=(), start=0, region=None, body=None, on_event=None):
        body = body or fn.body
        pv = mir.Prov(body)
        res = Result()
        state = {start: {(self.zero, False)}}
        work = [start]
        effects_cache = {}

        def block_effect(b):
            if b in effects_cache:
                return effects_cache[b]
            t = body.term(b)
            eff = None
            if t["k"] == "call":
                ce = self.call_effect(fn, body, b, t, pv)
                if ce is not None:
                    if ce[0] == "delta":
                        eff = list(ce[1])
                    elif ce[0] == "callee":
                        eff = sorted(self.summary(ce[1], ce[2]))
                        # a callee without any success path (always panics / unresolved recursion)
                        # contributes nothing on this path
            effects_cache[b] = eff
            return eff

        def marks_error(b):
            blk = body.blocks[b]
            for s in blk["s"]:
                if s["k"] == "assign" and s["r"]["k"] == "agg" and s["r"].get("a") == "adt" \
                        and s["r"].get("adt") == "core::result::Result" and s["r"].get("variant") == "Err":
                    return True
            t = blk["t"]
            if t["k"] == "call" and (t.get("cpath") or "").endswith("FromResidual::from_residual"):
                return True
            return False

        steps = 0
        while work:
            b = work.pop()
            steps += 1
            if steps > 20000:
                res.unbounded = True
                break
            cur = state.get(b, set())
            res.at[b] = set(cur)
            eff = block_effect(b)
            err_here = marks_error(b)
            out = set()
            if eff is None:
                out = set(cur)
            else:
                for v, e in cur:
                    for d in eff:
                        out.add((vadd(v, d), e))
            if on_event is not None:
                on_event(b, cur, out)
            if err_here:
                out = {(v, True) for v, _ in out}
            t = body.term(b)
            if t["k"] == "return":
                res.exits |= out
                continue
            succ = body.succ(b)
            if t["k"] == "switch":
                succ = self._feasible(body, pv, t, const_args, succ)
            for s in succ:
                if region is not None and s not in region:
                    res.exits |= out
                    continue
                old = state.get(s, set())
                new = old | out
                if len(new) > CAP * 2:
                    res.unbounded = True
                    new = old
                if new != old:
                    state[s] = new
                    if s not in work:
                        work.append(s)
        return res

    def _feasible(self, body, pv, t, const_args, succ):
        p = mir.op_place(t["o"])
        if p is None or not const_args:
            return succ
        o = pv.of_place(p)
        while o[0] in ("cast",):
            o = o[1]
        if o[0] == "param" and o[1] < len(const_args) and const_args[o[1]] is not None:
            val = const_args[o[1]]
            for v, tgt in t["ts"]:
                if v == val:
                    return [tgt]
            return [t["else"]]
        return succ


def const_args_of(t):
    out = []
    for a in t["args"]:
        k = a.get("k")
        if k is not None and "int" in k:
            out.append(k["int"])
        else:
            out.append(None)
    return tuple(out)
