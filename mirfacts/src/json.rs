//! Minimal JSON value + writer (no dependencies).
use std::fmt;

pub enum J {
    Null,
    Bool(bool),
    Int(i128),
    Str(String),
    Arr(Vec<J>),
    Obj(Vec<(String, J)>),
}

impl J {
    pub fn obj() -> J {
        J::Obj(Vec::new())
    }
    pub fn s(s: &str) -> J {
        J::Str(s.to_string())
    }
    pub fn set(&mut self, k: &str, v: J) {
        if let J::Obj(items) = self {
            items.push((k.to_string(), v));
        }
    }
}

fn esc(s: &str, f: &mut fmt::Formatter<'_>) -> fmt::Result {
    f.write_str("\"")?;
    for c in s.chars() {
        match c {
            '"' => f.write_str("\\\"")?,
            '\\' => f.write_str("\\\\")?,
            '\n' => f.write_str("\\n")?,
            '\r' => f.write_str("\\r")?,
            '\t' => f.write_str("\\t")?,
            c if (c as u32) < 0x20 => write!(f, "\\u{:04x}", c as u32)?,
            c => write!(f, "{}", c)?,
        }
    }
    f.write_str("\"")
}

impl fmt::Display for J {
    fn fmt(&self, f: &mut fmt::Formatter<'_>) -> fmt::Result {
        match self {
            J::Null => f.write_str("null"),
            J::Bool(b) => write!(f, "{}", b),
            J::Int(i) => write!(f, "{}", i),
            J::Str(s) => esc(s, f),
            J::Arr(a) => {
                f.write_str("[")?;
                for (i, x) in a.iter().enumerate() {
                    if i > 0 {
                        f.write_str(",")?;
                    }
                    write!(f, "{}", x)?;
                }
                f.write_str("]")
            }
            J::Obj(o) => {
                f.write_str("{")?;
                for (i, (k, v)) in o.iter().enumerate() {
                    if i > 0 {
                        f.write_str(",")?;
                    }
                    esc(k, f)?;
                    f.write_str(":")?;
                    write!(f, "{}", v)?;
                }
                f.write_str("}")
            }
        }
    }
}
