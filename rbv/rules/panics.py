"""C07.R1 / C08.R6: panic-site audit.

Every explicit panic site (panic!/unreachable!/unimplemented!/todo!/assert!, Option/Result
unwrap/expect, Index::index on Vec/slice/HashMap/VecDeque, debug_assert! - the dev profile is what
`cargo build` and `cargo test` produce) and every implicit one (the bounds check
of a slice / array index expression, the zero check of an integer division or remainder - rustc's
assert terminators; J1 for these is a proof by rbv.bounds that the asserted comparison follows from
the comparisons dominating the site) in a body reachable from the entry
points of the scope is keyed by (enclosing function, kind, callee or message, ordinal) and must be in
exactly one class: J1 discharged by a rule re-proved on every run, J2 audited with a written
invariant, K a known finding, or U the unaudited baseline frozen in tables/panic_baseline.json
(accepted risk, counted in the evidence).  A reachable site in no class - a new unwrap, a new panic,
moved code - is a violation naming the site."""
import json
import os
import re

from .. import bounds, mir, pcnull
from ..core import CheckError, VERIF
from . import common

UNWRAPS = ("unwrap", "expect", "unwrap_err", "expect_err")
# std operations that panic on an out-of-range position / empty container
STD_PANICKING = {
    "std::vec::Vec": ("remove", "insert", "swap_remove", "split_off", "drain", "splice"),
    "std::string::String": ("remove", "insert", "insert_str", "split_off", "drain", "replace_range", "truncate"),
    "core::slice::<impl [T]>": ("split_at", "split_at_mut", "swap", "copy_from_slice", "clone_from_slice",
                                 "chunks", "windows", "rotate_left", "rotate_right", "select_nth_unstable"),
    "core::str::<impl str>": ("split_at",),
    "std::collections::VecDeque": ("swap", "insert", "split_off", "drain"),
    "std::cell::RefCell": ("borrow", "borrow_mut"),
    # panic on an empty name, a name containing `=` and on NUL bytes
    "std::env": ("set_var", "remove_var"),
}
PANIC_MACROS = ("panic", "unreachable", "unimplemented", "todo", "assert", "assert_eq", "assert_ne")


def scope_roots(prog, scope):
    roots = []
    if scope == "frontend":
        for f in prog.fns.values():
            if f.crate == "rusty_parser" and f.name in ("parse_main_str", "parse_main_file") and f.kind == "fn":
                roots.append(f)
            if f.crate == "rusty_linter" and f.name == "lint" and f.kind == "fn":
                roots.append(f)
        if len(roots) < 3:
            raise CheckError("front-end entry points not found: %s" % [r.path for r in roots])
        crates = ("rusty_pc", "rusty_parser", "rusty_linter", "rusty_common", "rusty_variant", "rusty_bit_vec")
    else:
        roots.append(prog.method("Interpreter", "interpret"))
        roots += [f for f in prog.fns.values() if f.name == "generate_instructions" and f.crate == "rusty_basic"]
        if len(roots) < 2:
            raise CheckError("back-end entry points not found")
        crates = ("rusty_basic", "rusty_variant", "rusty_common", "rusty_bit_vec")
    return roots, crates


def sites_of(prog, fn):
    """[(kind, what, line)] explicit panic sites of one body (debug assertions excluded)."""
    out = []
    for b, t in fn.body.calls():
        mx = t.get("mx", [])
        if any("debug_assert" in m for m in mx):
            # panics in the dev profile (the one `cargo build` / `cargo test` produce)
            if mir.is_panic_call(t):
                msg = mir.panic_message(fn.body, t)
                out.append(("debug_assert", _short(msg) if msg else "", t.get("ln"), b))
            continue
        cp = t.get("cpath") or ""
        name = cp.split("::")[-1]
        if mir.is_panic_call(t):
            macro = [m.rstrip("!") for m in mx if m.rstrip("!") in PANIC_MACROS]
            if not macro and any(m.startswith(("format", "fmt")) for m in mx):
                continue
            msg = mir.panic_message(fn.body, t)
            out.append((macro[0] if macro else "panic", _short(msg) if msg else name, t.get("ln"), b))
        elif name in UNWRAPS and re.match(r"std::(option::Option|result::Result)::<", cp):
            out.append((name, cp.split("::")[2].split("<")[0] if cp.count("::") > 2 else "", t.get("ln"), b))
        elif cp in ("std::ops::Index::index", "std::ops::IndexMut::index_mut"):
            st = t.get("self_ty") or ""
            cont = re.sub(r"<.*", "", st).split("::")[-1]
            if cont in ("Vec", "HashMap", "VecDeque", "BTreeMap", "String", "str") or st.startswith("["):
                out.append(("index", cont or "slice", t.get("ln"), b))
        else:
            for owner, names in STD_PANICKING.items():
                if name in names and re.sub(r"::<[^>]*>(?=::\w+$)", "", cp).startswith(owner):
                    out.append(("stdcall", "%s::%s" % (owner.split("::")[-1].strip("<>"), name), t.get("ln"), b))
                    break
    for kind, b, t in bounds.implicit_sites(fn):
        if any("debug_assert" in m for m in t.get("mx", [])):
            continue
        out.append((kind, "", t.get("ln"), b))
    return out


def _short(msg):
    return re.sub(r"[^A-Za-z0-9 _.:-]", "", msg)[:48]


def enumerate_sites(prog, scope):
    roots, crates = scope_roots(prog, scope)
    reach = prog.reachable_from(roots)
    out = {}
    n_fns = 0
    extra = set()
    if scope == "backend":
        # functions of the front-end crates that only the back end reaches (the generator asks the checker's
        # name tables): nothing else enumerates their panic sites
        fe_roots, fe_crates = scope_roots(prog, "frontend")
        fe_reach = prog.reachable_from(fe_roots)
        extra = {fid for fid in reach if fid not in fe_reach and prog.fns.get(fid) is not None
                 and prog.fns[fid].crate in fe_crates and prog.fns[fid].crate not in crates}
    for fid in sorted(reach):
        fn = prog.fns.get(fid)
        if fn is None or (fn.crate not in crates and fid not in extra) or fn.kind == "const":
            continue
        if common.is_derived(fn):
            continue
        n_fns += 1
        counts = {}
        owner = fn.path.split("::", 1)[1]
        for kind, what, line, b in sites_of(prog, fn):
            base = "%s|%s|%s" % (owner, kind, what)
            k = counts.get(base, 0)
            counts[base] = k + 1
            key = base + ("|#%d" % k if k else "")
            out[key] = (fn, line, b, kind)
    return out, n_fns


def discharged_locally(prog, fn, b, kind):
    """J1: the unwrap/expect receiver is guarded by a dominating is_some()/is_ok()/contains_key test
    on the same value, or the index is guarded by a comparison with len()."""
    body = fn.body
    t = body.term(b)
    if kind in ("bounds", "divzero", "remzero", "shift"):
        ok, why = bounds.prove_site(prog, fn, b, t)
        return ("proved: " + why) if ok else None
    if kind == "index":
        ok, why = bounds.prove_index_call(prog, fn, b, t)
        return ("proved: " + why) if ok else None
    if kind == "stdcall":
        # insert(0, x) is always within 0..=len
        name = (t.get("cpath") or "").split("::")[-1]
        if name in ("insert", "insert_str") and len(t["args"]) >= 2:
            k = t["args"][1].get("k") or {}
            if k.get("int") == 0:
                return "proved: position 0 is always <= len"
        return None
    pv = mir.Prov(body)
    if kind in UNWRAPS and t["args"]:
        recv = mir.strip_all(pv.of_operand(t["args"][0]))
        for b2, t2 in body.calls():
            nm = (t2.get("cpath") or "").split("::")[-1]
            if nm in ("is_some", "is_ok") and t2["args"] and body.dominates(b2, b):
                o = mir.strip_all(pv.of_operand(t2["args"][0]))
                if o == recv:
                    nxt = body.term(t2["t"]) if t2.get("t") is not None else None
                    if nxt and nxt["k"] == "switch":
                        false_t = [tg for v, tg in nxt["ts"] if v == 0]
                        if false_t and not body.every_path_passes(nxt["else"], [b], set()) is None:
                            if b in body.reachable(nxt["else"], avoid=set(false_t)) and \
                                    b not in body.reachable(false_t[0], avoid={nxt["else"]}):
                                return "guarded by %s()" % nm
    return None


def _witness_zero_test_on_divisor(prog, w):
    """every `%` / `/` on integers in the function divides by the payload of a value X, and a call
    `is_approximately_zero(&X)` (the function's zero test) on that same X dominates the operation"""
    f = prog.fn_opt(w["fn"])
    if f is None:
        cands = [g for g in prog.fns.values() if g.path == w["fn"] or g.path.endswith("::" + w["fn"])]
        f = cands[0] if len(cands) == 1 else None
    if f is None:
        raise CheckError("witness anchor %s not found" % w["fn"])
    body = f.body
    pv = mir.Prov(body)
    tests = []
    for b, t in body.calls():
        if (t.get("cpath") or "").split("::")[-1] in ("is_approximately_zero", "is_zero") and t["args"]:
            tests.append((b, mir.strip_all(pv.of_operand(t["args"][0]))))
    n = 0
    for b, blk in enumerate(body.blocks):
        if body.is_cleanup(b):
            continue
        for st in blk["s"]:
            r = st.get("r", {})
            if st["k"] != "assign" or r.get("k") != "bin" or r.get("op") not in ("Rem", "Div"):
                continue
            ty = body.locals[st["p"][0]]["ty"]
            if ty not in ("i32", "i64"):
                continue
            n += 1
            o = mir.strip_all(pv.of_operand(r["b"]))
            # the payload of a numeric Variant: (X as VInteger).0 -> X
            if o[0] == "field" and mir.strip_all(o[1])[0] == "downcast" and \
                    str(mir.strip_all(o[1])[2]) in ("VInteger", "VLong", "VSingle", "VDouble"):
                o = mir.strip_all(mir.strip_all(o[1])[1])
            if not any(body.dominates(tb, b) and to == o for tb, to in tests):
                w["_why"] = "the divisor of the `%s` at line %s is %s, but the zero test is applied to %s" % (
                    "%" if r["op"] == "Rem" else "/", st.get("ln"), mir.short_origin(o),
                    [mir.short_origin(to) for _tb, to in tests] or "nothing")
                return False
    if n == 0:
        raise CheckError("witness %s: no integer division found" % w["fn"])
    return True


def _witness_callers_prove_index(prog, w):
    """Every call, from outside the file that defines them, of a method of trait `trait` that takes
    (self, index: usize) is made with `index < len(self)` proved at the call site by the comparisons that
    dominate it (bounds.Prover: `len == n`, `len < n` refused, `for i in a..len`), or is listed with its
    reason in w["tabled"] (keys: <caller fn name>:<method>:<index term>)."""
    from .. import bounds
    from ..sympath import show
    n = 0
    tabled = w.get("tabled", {})
    used_tabled = set()
    for f in sorted(prog.fns.values(), key=lambda x: x.id):
        if f.body is None or f.crate != w["crate"] or w["defining_file"] in (f.file or ""):
            continue
        for b, t in f.body.calls():
            cp = t.get("cpath") or ""
            if (w["trait"] + "::") not in cp or len(t["args"]) != 2:
                continue
            p = mir.op_place(t["args"][1])
            ty = f.body.locals[p[0]]["ty"] if p is not None else ((t["args"][1].get("k") or {}).get("ty"))
            if ty != "usize":
                continue
            n += 1
            pr = bounds.Prover(prog, f)
            base = bounds._strip(pr.ex.of_operand(t["args"][0]))
            idx = pr.ex.of_operand(t["args"][1])
            goal = bounds.mk_lt(idx, ("len", base))
            if goal[0] == "c":
                ok = bool(goal[1])
            elif goal[0] != "lt":
                ok = False
            else:
                ok, _used = pr.prove(b, goal, True)
            if ok:
                continue
            key = "%s:%s:%s" % (f.path.split("::", 1)[1], cp.split("::")[-1], re.sub(r"_\d+", "_", show(idx)))
            if key in tabled:
                used_tabled.add(key)
                continue
            w["_why"] = "%s (line %s) calls %s with index %s, and %s does not follow from the tests that dominate the call" \
                        % (f.path, t.get("ln"), cp.split("::")[-1], show(idx), show(goal))
            return False
    if n < w.get("min_calls", 1):
        raise CheckError("witness callers_prove_index: only %d calls of %s methods found" % (n, w["trait"]))
    stale = set(tabled) - used_tabled
    if stale:
        raise CheckError("witness callers_prove_index: tabled call sites no longer exist: %s" % sorted(stale))
    return True


def _witness_guard_implies_no_panic(prog, w):
    """`worker` (a partial function over a recursive enum that panics on the shapes it does not handle) is
    only called where `guard` answered true.  Both are interpreted (TagFlow) on every tree of the enum up to
    the stated depth, built from the listed variants with the listed recursive field; wherever the guard may
    answer true the worker must return on some path and meet no panic."""
    from .. import tagflow as tf
    guard, worker = prog.fn_opt(w["guard"]), prog.fn_opt(w["worker"])
    if guard is None or worker is None:
        raise CheckError("witness anchor %s / %s not found" % (w["guard"], w["worker"]))
    adt = w["adt"]
    if prog.adt(adt) is None:
        raise CheckError("witness: enum %s not found" % adt)
    eng = tf.Engine(prog)
    eng.trunc_depth = 12
    names = {v["name"] if isinstance(v, dict) else v for v in prog.variants(adt)}
    leaves = [v for v in w["leaves"] if v in names]
    rec = {k: v for k, v in w["recursive"].items() if k in names}
    if len(leaves) != len(w["leaves"]) or len(rec) != len(w["recursive"]):
        raise CheckError("witness %s: the listed variants no longer exist" % w["worker"])
    trees = [(v, eng.make(adt, v, {})) for v in leaves]
    level = list(trees)
    for _d in range(int(w.get("depth", 3)) - 1):
        nxt = []
        for rv, fld in rec.items():
            for nm, t in level:
                nxt.append(("%s(%s)" % (rv, nm), eng.make(adt, rv, {int(fld): t})))
        trees += nxt
        level = nxt
    n_true = 0
    for nm, t in trees:
        g = eng.summary(guard, (t,))
        may_true = any(r == ("k", 1) or (r and r[0] == "top") for r in g) or not g
        if not may_true:
            continue
        n_true += 1
        res = eng.summary(worker, (t,))
        # the panics the guard is there to exclude: those of the worker and of the functions of its file
        # (a field left abstract in the tree can make any callee of another file diverge - its own business)
        div = {d for d in eng.divergences(worker, (t,))
               if prog.fns.get(d[0]) is not None and prog.fns[d[0]].file == worker.file}
        if div:
            w["_why"] = "%s answers true for %s, on which %s panics" % (guard.name, nm, worker.name)
            return False
    if n_true < 2:
        raise CheckError("witness %s: the guard accepted %d of %d trees (the interpretation is blind)" % (w["worker"], n_true, len(trees)))
    w["_n"] = len(trees)
    return True


def _witness_occupied_entry_is_error(prog, w):
    """every path of `fn` on which the map entry it looks up is Occupied ends in Err (nothing is let through twice)"""
    f = prog.fn_opt(w["fn"])
    if f is None:
        raise CheckError("witness anchor %s not found" % w["fn"])
    body = f.body
    sws = [sw for sw in mir.enum_switches(prog, body) if sw.adt.endswith("::map::Entry") or sw.adt.endswith("::Entry")]
    if not sws:
        raise CheckError("witness %s: no match on a map Entry" % w["fn"])
    oks = {b for b, blk in enumerate(body.blocks) for s in blk["s"] if s["k"] == "assign" and s["r"]["k"] == "agg"
           and s["r"].get("adt") == "core::result::Result" and s["r"].get("variant") == "Ok" and s["p"][0] == 0}
    errs = {b for b, blk in enumerate(body.blocks) for s in blk["s"] if s["k"] == "assign" and s["r"]["k"] == "agg"
            and s["r"].get("adt") == "core::result::Result" and s["r"].get("variant") == "Err"}
    for sw in sws:
        vac = sw.arms.get("Vacant")
        occ = sw.arms.get("Occupied", sw.otherwise)
        if occ is None:
            raise CheckError("witness %s: the Occupied side of the Entry match was not found" % w["fn"])
        avoid = {vac} if vac is not None and vac != occ else set()
        region = body.reachable(occ, avoid=avoid) | {occ}
        # blocks shared with the Vacant side (the join) are not the Occupied side's doing
        if vac is not None:
            region -= (body.reachable(vac, avoid={occ}) | {vac}) - {occ}
        if region & oks:
            w["_why"] = "%s returns Ok on a path where the entry is Occupied (line %s)" % (
                f.path.split("::", 1)[1], sorted(body.blocks[b]["t"].get("ln") for b in region & oks))
            return False
        if not (region & errs) and not any(
                (mir.callee_path(t) or "").endswith(("at_pos", "with_err_at", "from_residual")) for b, t in body.calls() if b in region):
            w["_why"] = "the Occupied side of %s builds no error" % f.path.split("::", 1)[1]
            return False
    return True


def witness_holds(prog, w):
    """re-check one machine-checkable part of an audited invariant (tables/panic_witnesses.json)."""
    if w["kind"] == "callers_prove_index":
        return _witness_callers_prove_index(prog, w)
    if w["kind"] == "zero_test_on_divisor":
        return _witness_zero_test_on_divisor(prog, w)
    if w["kind"] == "guard_implies_no_panic":
        return _witness_guard_implies_no_panic(prog, w)
    if w["kind"] == "occupied_entry_is_error":
        return _witness_occupied_entry_is_error(prog, w)
    if w["kind"] != "parser_mandatory":
        raise CheckError("unknown witness kind %s" % w["kind"])
    root = prog.fn_opt(w["fn"])
    if root is None:
        raise CheckError("witness anchor %s not found" % w["fn"])
    tys = []
    for f in prog.closures_of(root):
        tys.append((f.id, f.body.locals[0]["ty"]))
    for _b, t in root.body.calls():
        for a in t["args"]:
            pl = mir.op_place(a)
            if pl is not None and not mir.place_proj(pl):
                tys.append((root.id, root.body.locals[mir.place_local(pl)]["ty"]))
    tys = [(o, ty) for o, ty in tys if "rusty_pc::" in ty or "pc_specific::" in ty]
    if not tys:
        raise CheckError("witness %s: no parser value found to judge" % w["fn"])
    for o, ty in tys:
        if pcnull.provably_optional(ty):
            w["_why"] = "%s builds an optional parser (%s...)" % (o, pcnull.head_chain(ty))
            return False
    return True


def fingerprint(fn, key):
    """what stays the same when the function around a panic site is renamed, extracted or inlined:
    the source file, the kind of site and its message / callee"""
    parts = key.split("|")
    kind = parts[1] if len(parts) > 1 else ""
    what = parts[2] if len(parts) > 2 else ""
    if kind in ("index", "bounds"):
        # `v[i]` on a Vec is a call of Index::index, on a slice / array a bounds assertion: one class
        kind, what = "idx", ""
    return [fn.file, kind, what]


def _moved_sites(prog, rule, scope, sites, audited, baseline):
    """{new site key: the key it was audited (or recorded as a known finding) under}.  A site whose
    key is in no table is matched with a table entry that no longer exists in the tree when both have
    the same fingerprint (file, kind, message) - at most as many as have disappeared.  The
    fingerprints of the table entries were recorded when they were audited
    (tables/panic_fingerprints.json)."""
    path = os.path.join(VERIF, "tables", "panic_fingerprints.json")
    try:
        fps = json.load(open(path)).get(scope, {})
    except FileNotFoundError:
        return {}
    kf = set()
    try:
        for f in json.load(open(os.path.join(VERIF, "known_findings.json"))).get("findings", []):
            if f["key"].startswith(rule + ":"):
                kf.add(f["key"].split(":", 1)[1])
    except FileNotFoundError:
        pass
    tabled = set(audited) | set(baseline) | kf
    gone = {}
    for k in sorted(tabled):
        if k not in sites and k in fps:
            gone.setdefault(tuple(fps[k]), []).append(k)
    alias = {}
    for k in sorted(sites):
        if k in tabled:
            continue
        fn, _line, b, kind = sites[k]
        if discharged_locally(prog, fn, b, kind):
            continue
        pool = gone.get(tuple(fingerprint(fn, k)))
        if pool:
            alias[k] = pool.pop(0)
    return alias


def r_audit(ctx, rule, scope):
    prog = ctx.prog
    path = os.path.join(VERIF, "tables", "panic_baseline.json")
    table = json.load(open(path))
    base = table.get(scope, {})
    audited = base.get("audited", {})
    baseline = set(base.get("unaudited", []))
    sites, n_fns = enumerate_sites(prog, scope)
    witnesses = json.load(open(os.path.join(VERIF, "tables", "panic_witnesses.json"))).get(scope, {})
    for k in witnesses:
        if k not in sites:
            raise CheckError("%s: witnessed panic site %s is no longer enumerated" % (rule, k))
    counts = {"J1": 0, "J2": 0, "U": 0, "new": 0}
    alias = _moved_sites(prog, rule, scope, sites, audited, baseline)
    for site_key in sorted(sites):
        fn, line, b, kind = sites[site_key]
        # a site that only moved (function renamed / extracted / inlined) keeps the key it was audited under
        key = alias.get(site_key, site_key)
        okey = "%s:%s" % (rule, key)
        loc = "%s:%s" % (fn.file, line)
        j1 = discharged_locally(prog, fn, b, kind)
        if j1:
            counts["J1"] += 1
            ctx.ok(rule, okey, loc, "J1: " + j1)
        elif key in audited:
            broken = [w for w in witnesses.get(key, []) if not witness_holds(prog, w)]
            if broken:
                counts["new"] += 1
                w = broken[0]
                ctx.violation(rule, okey, loc,
                              "the audited invariant that keeps this panic site unreachable no longer holds: %s "
                              "- %s; the %s now aborts here instead of returning a located error"
                              % (w["claim"], w["_why"], scope), {"function": fn.path, "witness": w["fn"]})
                continue
            counts["J2"] += 1
            n_w = len(witnesses.get(key, []))
            ctx.ok(rule, okey, loc, "J2: " + audited[key] + (" [%d witness(es) re-checked]" % n_w if n_w else ""))
        elif key in baseline:
            counts["U"] += 1
            ctx.ok(rule, okey, loc, "U: unaudited baseline (accepted risk)")
        else:
            counts["new"] += 1
            if kind == "index":
                _ok, why = bounds.prove_index_call(prog, fn, b, fn.body.term(b))
                ctx.violation(rule, okey, loc,
                              "this element index can be out of range: i < len(v) %s, and the site is not in the "
                              "audited table nor in the frozen baseline - an index past the end aborts the %s "
                              "instead of returning an error" % (why, scope), {"function": fn.path})
                continue
            if kind in ("bounds", "divzero", "remzero", "shift"):
                _ok, why = bounds.prove_site(prog, fn, b, fn.body.term(b))
                ctx.violation(rule, okey, loc,
                              "the %s of this expression can fail: the asserted condition %s, and the site is not "
                              "in the audited table nor in the frozen baseline - an index past the end / a zero "
                              "divisor here aborts the %s instead of returning an error"
                              % ({"bounds": "bounds check", "divzero": "division zero check",
                                  "remzero": "remainder zero check", "shift": "shift amount check (`1 << n` with n not below the bit width)"}[kind], why, scope), {"function": fn.path})
                continue
            ctx.violation(rule, okey, loc,
                          "explicit panic site (%s) reachable from the %s entry points is not in the audited "
                          "table nor in the frozen baseline: new or moved code that can abort instead of "
                          "returning an error" % (key.replace("|", " / "), scope), {"function": fn.path})
    gone = sorted(k for k in baseline | set(audited) if k not in sites)
    ctx.analysed_units(rule, reachable_functions=n_fns, sites=len(sites), classes=counts,
                       baseline_entries_no_longer_present=len(gone))
    floor = base.get("floor", 1)
    if len(sites) < floor:
        raise CheckError("%s: only %d explicit panic sites enumerated (floor %d)" % (rule, len(sites), floor))
    ctx.require(rule, floor)
