#!/bin/bash
# usage: verify_seed.sh <seed-dir (patch.diff, demo.bas | demo_test.rs[, stdin.txt])> <scratch-worktree-name>
# Confirms a seeded change on /repo's HEAD in a scratch worktree (never in /repo): builds, demo with the change,
# whole test suite with the change, demo without it. Writes <seed-dir>/verify.log. Removes the worktree.
set -u
SD=$(realpath "$1"); WT=/tmp/wt/$2
LOG=$SD/verify.log
git -C /repo worktree remove --force $WT 2>/dev/null
git -C /repo worktree add -q --detach $WT HEAD || exit 2
cd $WT
{
echo "== HEAD $(git rev-parse --short HEAD); patch lines: $(wc -l < $SD/patch.diff)"
if ! git apply $SD/patch.diff; then echo "PATCH DOES NOT APPLY"; fi
run_demo() {
  if [ -f $SD/demo_test.rs ]; then
    crate=$(grep -m1 -o 'rusty_[a-z_]*' $SD/demo_test.rs | head -1); crate=${crate:-rusty_pc}
    [ -f $SD/demo_crate.txt ] && crate=$(cat $SD/demo_crate.txt)
    mkdir -p $crate/tests; cp $SD/demo_test.rs $crate/tests/seed_demo_test.rs
    cargo test --offline -p $crate --test seed_demo_test 2>&1 | grep -E "^test |test result|panicked|error" | head -40
    rm -f $crate/tests/seed_demo_test.rs
  else
    for d in $SD/demo*.bas; do
      echo "-- $(basename $d)"
      dd=$(mktemp -d); cp $d $dd/; [ -d $SD/demo_files ] && cp -r $SD/demo_files/. $dd/
      if [ -f $SD/stdin.txt ]; then (cd $dd && timeout 20 $WT/target/debug/rusty_basic $(basename $d) < $SD/stdin.txt 2>&1 | head -60)
      else (cd $dd && timeout 20 $WT/target/debug/rusty_basic $(basename $d) < /dev/null 2>&1 | grep -v "^  \|^note:\|stack backtrace" | head -60); fi
      echo "exit=$?"; rm -rf $dd
    done
  fi
}
echo "== build WITH change"; cargo build --offline 2>&1 | grep -E "^(warning|error)|Finished" | sort | uniq -c
echo "== WITH change"; run_demo
echo "== test suite WITH change"
cargo test --workspace --no-fail-fast --offline 2>&1 | grep -E "^test result|FAILED|failed" | sort | uniq -c
echo "== WITHOUT change"; git checkout -q -- . ; cargo build --offline 2>&1 | grep -E "^(warning|error)|Finished" | sort | uniq -c; run_demo
echo "== done"
} > $LOG 2>&1
cd /; git -C /repo worktree remove --force $WT
