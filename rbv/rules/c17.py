"""C17 - string function laws: the range-check clause (C17.R1)."""
from .. import interval as iv, mir
from ..core import CheckError
from . import common

LEVEL = "other"
EXPLANATION = (
    "Decides the last sentence of the property - `negative counts and non-positive start "
    "positions raise Illegal function call (5)`: (R1) in the run function of each string built-in "
    "every argument the property calls a count (LEFT$ 2, RIGHT$ 2, MID$ 3, SPACE$ 1, STRING$ 1) is "
    "read through VariantCasts::to_non_negative_int and every start position (MID$ 2, INSTR 1 of 3) "
    "through to_positive_int; (R2) interval dataflow over those two accessors: the value converted "
    "to usize on the success path is >= 0 resp. >= 1 and the other path builds IllegalFunctionCall; and "
    "one structural part of `counts clamped to the length`: (R3) the end of every substring range "
    "handed to str::get in the string built-ins is proved <= LEN(s).")
NOT_DECIDED = [
    "LEFT$/RIGHT$/MID$ substring equations, INSTR minimality, LEN additivity, UCASE$/LCASE$/LTRIM$/RTRIM$ "
    "laws, SPACE$ = STRING$, VAL(STR$(k)) = k (value-level string arithmetic)",
]

# (module, argument index, accessor) derived from the property sentence
REQUIRED = [
    ("left", 1, "to_non_negative_int", "LEFT$ count"),
    ("right", 1, "to_non_negative_int", "RIGHT$ count"),
    ("mid_fn", 2, "to_non_negative_int", "MID$ length"),
    ("mid_fn", 1, "to_positive_int", "MID$ start"),
    ("space", 0, "to_non_negative_int", "SPACE$ count"),
    ("string_fn", 0, "to_non_negative_int", "STRING$ count"),
    ("instr", 0, "to_positive_int", "INSTR start (3-argument form)"),
]


def _arg_index(o):
    """Constant argument index inside an origin: context()[i] or variables().get(i)."""
    o = mir.strip_all(o)
    while o[0] in ("downcast", "field"):
        o = mir.strip_all(o[1])
    if o[0] == "call" and o[1].split("::")[-1] in ("index", "index_mut", "get") and len(o[2]) >= 2:
        idx = mir.strip_all(o[2][1])
        if idx[0] == "const":
            try:
                return int(idx[1].split("_")[0])
            except ValueError:
                return None
    return None


def accessor_uses(prog, mod):
    """{arg index: set of accessor names applied} for interpreter::built_ins::<mod>."""
    fs = [f for f in prog.fns.values() if ("interpreter::built_ins::%s::" % mod) in f.id and f.crate == "rusty_basic"]
    if not fs:
        raise CheckError("built_ins::%s not found" % mod)
    out = {}
    raw = {}
    for f in fs:
        pv = mir.Prov(f.body)
        for b, t in f.body.calls():
            cp = t.get("cpath") or ""
            name = cp.split("::")[-1]
            if not t["args"]:
                continue
            i = _arg_index(pv.of_operand(t["args"][0]))
            if i is None:
                continue
            if "VariantCasts::" in cp:
                out.setdefault(i, set()).add(name)
            elif name in ("try_cast",):
                raw.setdefault(i, set()).add(name)
    return out, raw, fs[0]


def r1_accessors(ctx, rule="C17.R1"):
    prog = ctx.prog
    for mod, idx, accessor, what in REQUIRED:
        uses, raw, f = accessor_uses(prog, mod)
        got = uses.get(idx, set())
        key = "%s:%s:arg%d:%s" % (rule, mod, idx, accessor)
        ctx.decide(accessor in got, rule, key, f.loc, "%s read through %s" % (what, accessor),
                   "%s (argument %d of %s) is read through %s instead of %s: an out-of-range value is "
                   "not rejected with Illegal function call"
                   % (what, idx, mod, sorted(got | raw.get(idx, set())) or "nothing recognised", accessor))
    ctx.require(rule, 7)


def r2_accessor_ranges(ctx, rule="C17.R2"):
    prog = ctx.prog
    for name, low in (("to_non_negative_int", 0), ("to_positive_int_or", 1)):
        fs = [f for f in prog.fns.values() if f.name == name and f.impl and f.impl["self_ty"].endswith("Variant")
              and "variant_casts" in f.id]
        if len(fs) != 1:
            raise CheckError("anchor VariantCasts::%s" % name)
        f = fs[0]
        an = iv.Analysis(prog, f)
        an.run()
        casts = [(ty, v) for ty, v in an.casts if ty == "usize"]
        ok = bool(casts) and all(iv.is_int(v) and v[1] >= low for _ty, v in casts)
        ctx.decide(ok, rule, "%s:%s:lower-bound" % (rule, name), f.loc,
                   "value converted to usize is >= %d" % low,
                   "%s converts a value to usize whose interval is %s (needs >= %d): a rejected value "
                   "slips through" % (name, [(v[1], v[2]) for _t, v in casts if iv.is_int(v)], low))
        built = {s["r"]["variant"] for blk in f.body.blocks for s in blk["s"]
                 if s["k"] == "assign" and s["r"]["k"] == "agg" and s["r"].get("adt", "").endswith("::RuntimeError")}
        if name == "to_non_negative_int":
            ctx.decide("IllegalFunctionCall" in built, rule, "%s:%s:error-5" % (rule, name), f.loc,
                       "rejected side raises IllegalFunctionCall", "%s builds %s" % (name, sorted(built)))
    tp = [f for f in prog.fns.values() if f.name == "to_positive_int" and "variant_casts" in f.id and f.impl]
    if len(tp) != 1:
        raise CheckError("anchor VariantCasts::to_positive_int")
    built = {s["r"]["variant"] for blk in tp[0].body.blocks for s in blk["s"]
             if s["k"] == "assign" and s["r"]["k"] == "agg" and s["r"].get("adt", "").endswith("::RuntimeError")}
    ctx.decide(built == {"IllegalFunctionCall"}, rule, rule + ":to_positive_int:error-5", tp[0].loc,
               "to_positive_int rejects with IllegalFunctionCall", "to_positive_int passes %s" % sorted(built))
    ctx.require(rule, 4)


def r3_substring_ranges(ctx, rule="C17.R3"):
    """`counts clamped to the length`: the string built-ins cut substrings with str::get(range)
    and turn a None (range outside the string) into "".  That idiom is right only when the *end* of
    the range can never exceed the length - then None means the start is past the end, for which ""
    is the answer.  Each end handed to str::get in interpreter/built_ins is proved <= len(s) from
    the comparisons that dominate its definitions (an unclamped end silently yields "")."""
    from .. import bounds
    prog = ctx.prog
    n = 0
    for fn in sorted(prog.fns.values(), key=lambda f: f.id):
        if fn.body is None or fn.crate != "rusty_basic" or "interpreter::built_ins::" not in fn.path:
            continue
        for b, t in fn.body.calls():
            if mir.callee_path(t) != "core::str::<impl str>::get" or len(t["args"]) != 2:
                continue
            g = ((t.get("f") or {}).get("k") or {}).get("gargs") or []
            kind = (g[0] if g else "").split("<")[0].split("::")[-1]
            if kind not in ("Range", "RangeTo", "RangeInclusive", "RangeToInclusive"):
                continue          # start.. has no end to clamp
            p = mir.op_place(t["args"][1])
            d = fn.body.single_def(p[0]) if p is not None else None
            if d is None or d[1] == "T" or d[2]["r"].get("k") != "agg":
                ctx.unknown(rule, "%s:%s:range" % (rule, fn.name), fn.loc, "range value not built in place")
                continue
            ops = d[2]["r"]["ops"]
            end_op = ops[-1]
            recv = t["args"][0]
            ok, why = bounds.prove_upper_bound_all_defs(
                prog, fn, b, end_op, lambda ex: ("len", bounds._strip(ex.of_operand(recv))))
            n += 1
            ctx.decide(ok, rule, "%s:%s:end-within-length" % (rule, fn.name), "%s:%s" % (fn.file, t.get("ln")),
                       why, "the end of the substring range is not proved <= LEN(s) (%s): for a count that runs "
                       "past the end of the string str::get returns None and the built-in answers \"\" instead "
                       "of the remaining characters" % why)
    ctx.analysed_units(rule, ranges=n)
    ctx.require(rule, 1)


def run(ctx):
    common.install(ctx)
    r1_accessors(ctx)
    r2_accessor_ranges(ctx)
    r3_substring_ranges(ctx)
