#!/usr/bin/env python3
"""debug helper (not used by checks): print the MIR facts of the functions whose path matches a regex"""
import sys, os, json, re
sys.path.insert(0, os.path.dirname(os.path.abspath(__file__)))
from rbv import facts, mir
p = mir.Program(facts.load_workspace())
for f in p.fns_matching(sys.argv[1]):
    print("=====", f.id, f.path, f.loc)
    b = f.body
    for i, l in enumerate(b.locals):
        print("  _%d: %s" % (i, json.dumps(l)[:160]))
    for i, blk in enumerate(b.blocks):
        print(" bb%d%s" % (i, " (cleanup)" if blk.get("c") else ""))
        for s in blk["s"]:
            print("    ", json.dumps(s)[:260])
        print("   T", json.dumps(blk["t"])[:400])
    for k, pb in enumerate(f.promoted):
        print("  promoted", k, json.dumps(pb.blocks)[:600])
