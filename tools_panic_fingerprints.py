#!/usr/bin/env python3
"""maintenance helper (not used by checks): record the fingerprint (file, kind, message) of every
panic site that is in a table today, so that a later rename / extraction / inlining of the function
around it can be recognised (rbv/rules/panics.py _moved_sites)."""
import json, sys
sys.path.insert(0, '/verif')
from rbv import facts, mir
from rbv.rules import panics
prog = mir.Program(facts.load_workspace())
p = '/verif/tables/panic_fingerprints.json'
try:
    out = json.load(open(p))
except FileNotFoundError:
    out = {}
for scope in ('frontend', 'backend'):
    sites, _n = panics.enumerate_sites(prog, scope)
    d = out.setdefault(scope, {})
    for key, (fn, line, b, kind) in sites.items():
        d[key] = panics.fingerprint(fn, key)
    print(scope, len(d), 'fingerprints')
json.dump(out, open(p, 'w'), indent=1, sort_keys=True)
