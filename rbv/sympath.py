"""Path-sensitive symbolic dataflow over the instruction generator's construct templates.

The generator functions for IF / SELECT CASE / WHILE / DO / FOR emit local labels and jumps whose
names are computed (format!("else-if-{}", i + 1), labels::next_case_label(len, has_else, i)) and
chosen by branches.  This module walks every CFG path of a construct's generator function, with the
helper generators and label helpers it calls inlined, keeping
  * an environment local -> term (terms are trees over the root function's parameters),
  * the branch facts taken so far (categorical facts on discriminants, difference constraints on
    integer terms, decided by a small zone domain - no solver),
  * the trace of label()/jump()/jump_if_false() events with their name and position terms.
Loops are walked with their iterator modelled (Range, Vec::into_iter, enumerate): `next()` is Some
iff cur < end and yields cur.  Each loop is iterated up to UNROLL times from its concrete start;
in `generic` mode one designated loop starts at a symbolic index so that the second iteration walked
is an arbitrary pair (k, k+1) of consecutive iterations.

Nothing is executed: the walk is over MIR facts, terms are compared syntactically after constant
folding.
"""
import re

from . import emit, mir
from .rules.c02 import parse_fmt_template

UNROLL = 2
MAX_PATHS = 60000


class Budget(Exception):
    pass


# ----------------------------------------------------------------------------- terms
def C(v):
    return ("c", v)


def lin(t):
    """term -> (atom or None, k) when it is atom + k, else None."""
    if t[0] == "c" and isinstance(t[1], int) and not isinstance(t[1], bool):
        return (None, t[1])
    if t[0] == "add":
        return (t[1], t[2])
    if t[0] in ("s", "fmt", "agg", "optsym", "refp", "ref", "range", "viter", "enum"):
        return None
    return (t, 0)


def mk_add(a, k):
    la = lin(a)
    if la is None:
        return ("opq", "add", a, k)
    atom, k0 = la
    if atom is None:
        return C(k0 + k)
    if k0 + k == 0:
        return atom
    return ("add", atom, k0 + k)


def mk_lt(a, b):
    la, lb = lin(a), lin(b)
    if la and lb:
        if la[0] == lb[0]:
            return C(la[1] < lb[1])
        return ("lt", a, b)
    return ("opq", "lt", a, b)


def mk_eq(a, b):
    if a == b:
        return C(True)
    la, lb = lin(a), lin(b)
    if la and lb and la[0] == lb[0]:
        return C(la[1] == lb[1])
    if a[0] == "c" and b[0] == "c":
        return C(a[1] == b[1])
    if repr(a) > repr(b):
        a, b = b, a
    return ("eq", a, b)


def mk_not(a):
    if a[0] == "c":
        return C(not a[1])
    if a[0] == "not":
        return a[1]
    return ("not", a)


def render(items):
    """fmt items -> ('s', text) when every argument is a constant, else ('fmt', items)."""
    out = []
    for it in items:
        if it[0] == "lit":
            out.append(it[1])
        elif it[1][0] == "c":
            out.append(str(it[1][1]))
        elif it[1][0] == "s":
            out.append(it[1][1])
        else:
            merged = []
            for it2 in items:
                if it2[0] == "arg" and it2[1][0] in ("c", "s"):
                    it2 = ("lit", str(it2[1][1]))
                if merged and merged[-1][0] == "lit" and it2[0] == "lit":
                    merged[-1] = ("lit", merged[-1][1] + it2[1])
                else:
                    merged.append(it2)
            return ("fmt", tuple(merged))
    return ("s", "".join(out))


def show(t, depth=0):
    if depth > 6:
        return "..."
    k = t[0]
    if k == "c":
        return str(t[1])
    if k == "s":
        return '"%s"' % t[1]
    if k == "fmt":
        return '"' + "".join(i[1] if i[0] == "lit" else "{%s}" % show(i[1], depth + 1) for i in t[1]) + '"'
    if k == "add":
        return "%s%+d" % (show(t[1], depth + 1), t[2])
    if k == "p":
        return t[1]
    if k == "fld":
        return "%s.%s" % (show(t[1], depth + 1), t[2])
    if k == "len":
        return "len(%s)" % show(t[1], depth + 1)
    if k == "discr":
        return "tag(%s)" % show(t[1], depth + 1)
    if k in ("lt", "eq"):
        return "(%s %s %s)" % (show(t[1], depth + 1), "<" if k == "lt" else "==", show(t[2], depth + 1))
    if k == "not":
        return "!%s" % show(t[1], depth + 1)
    if k == "iv":
        return "k%d" % t[1]
    if k == "var":
        return "_%s" % (t[1] if isinstance(t[1], int) else "item%s" % (t[1][1],))
    if k == "call":
        return "%s(%s)" % (t[1].split("::")[-1], ", ".join(show(a, depth + 1) for a in t[2]))
    return k


# ----------------------------------------------------------------------------- facts
class Facts:
    """Branch facts of one path: categorical (term == value / term != values) and difference
    constraints x - y <= c over integer atoms, plus disequalities."""

    def __init__(self):
        self.cat = {}      # term -> ("=", v) | ("!=", frozenset)
        self.diff = []     # (x, y, c): x - y <= c   (None is the zero atom)
        self.neq = []      # (x, kx, y, ky): x + kx != y + ky
        self.log = []
        self.signed = set()  # atoms that may be negative (default: every atom is an unsigned quantity)

    def copy(self):
        f = Facts()
        f.cat = dict(self.cat)
        f.diff = list(self.diff)
        f.neq = list(self.neq)
        f.log = list(self.log)
        f.signed = set(self.signed)
        return f

    def assume_cat(self, term, value=None, not_values=None):
        cur = self.cat.get(term)
        if value is not None:
            if cur:
                if cur[0] == "=" and cur[1] != value:
                    return False
                if cur[0] == "!=" and value in cur[1]:
                    return False
            self.cat[term] = ("=", value)
        else:
            if cur:
                if cur[0] == "=":
                    return cur[1] not in not_values
                not_values = frozenset(not_values) | cur[1]
            self.cat[term] = ("!=", frozenset(not_values))
        return True

    def assume_bool(self, t, val):
        """Assume boolean term t has truth value val; False when contradictory."""
        if t[0] == "c":
            return bool(t[1]) == val
        if t[0] == "not":
            return self.assume_bool(t[1], not val)
        self.log.append((t, val))
        if t[0] == "lt":
            a, b = lin(t[1]), lin(t[2])
            if val:
                self.diff.append((a[0], b[0], b[1] - a[1] - 1))
            else:
                self.diff.append((b[0], a[0], a[1] - b[1]))
            return self.sat()
        if t[0] == "eq":
            x, y = t[1], t[2]
            if x[0] == "discr" or y[0] == "discr":
                d, o = (x, y) if x[0] == "discr" else (y, x)
                if o[0] == "c":
                    if val:
                        return self.assume_cat(d, value=o[1])
                    if d[2] == 2:
                        return self.assume_cat(d, value=1 - o[1])
                    return self.assume_cat(d, not_values=[o[1]])
            a, b = lin(x), lin(y)
            if a and b:
                if val:
                    self.diff.append((a[0], b[0], b[1] - a[1]))
                    self.diff.append((b[0], a[0], a[1] - b[1]))
                else:
                    self.neq.append((a[0], a[1], b[0], b[1]))
                return self.sat()
        return self.assume_cat(t, value=val)

    def sat(self):
        atoms = {None}
        for x, y, _c in self.diff:
            atoms.add(x)
            atoms.add(y)
        for x, _kx, y, _ky in self.neq:
            atoms.add(x)
            atoms.add(y)
        atoms = list(atoms)
        ix = {a: i for i, a in enumerate(atoms)}
        n = len(atoms)
        INF = 10 ** 9
        base = [[0 if i == j else INF for j in range(n)] for i in range(n)]
        # d[i][j] = least c with atom_i - atom_j <= c ; unsigned atoms are >= 0
        for a in atoms:
            if a is not None and a not in self.signed:
                base[ix[None]][ix[a]] = min(base[ix[None]][ix[a]], 0)
        for x, y, c in self.diff:
            base[ix[x]][ix[y]] = min(base[ix[x]][ix[y]], c)
        for _round in range(len(self.neq) + 2):
            d = [row[:] for row in base]
            for k in range(n):
                dk = d[k]
                for i in range(n):
                    dik = d[i][k]
                    if dik >= INF:
                        continue
                    di = d[i]
                    for j in range(n):
                        v = dik + dk[j]
                        if v < di[j]:
                            di[j] = v
            if any(d[i][i] < 0 for i in range(n)):
                return False
            changed = False
            for x, kx, y, ky in self.neq:
                # x + kx != y + ky   <=>  x - y != ky - kx
                c = ky - kx
                i, j = ix[x], ix[y]
                le = d[i][j]          # x - y <= le
                ge = -d[j][i]         # x - y >= ge
                if le == c and ge == c:
                    return False
                if le == c:
                    base[i][j] = min(base[i][j], c - 1)
                    changed = True
                elif ge == c:
                    base[j][i] = min(base[j][i], -(c + 1))
                    changed = True
            if not changed:
                return True
        return True

    def describe(self):
        out = []
        for t, v in self.log[-8:]:
            out.append(("" if v else "not ") + show(t))
        for t, v in list(self.cat.items())[-6:]:
            if t[0] == "discr":
                out.append("%s %s %s" % (show(t), v[0], v[1] if v[0] == "=" else sorted(v[1])))
        return out


# ----------------------------------------------------------------------------- walker
class Item:
    __slots__ = ("kind", "name", "pos", "fn", "line", "after_jump", "iters", "sub")

    def __init__(self, kind, name, pos, fn, line, after_jump, iters, sub=None):
        self.sub = sub
        self.kind = kind
        self.name = name
        self.pos = pos
        self.fn = fn
        self.line = line
        self.after_jump = after_jump
        self.iters = iters

    def key(self):
        return (self.name, self.pos)


class Frame:
    __slots__ = ("fn", "env", "bb", "ret", "visits")

    def __init__(self, fn, env, bb=0, ret=None):
        self.fn = fn
        self.env = env
        self.bb = bb
        self.ret = ret          # (dest place, target bb) in the caller
        self.visits = {}

    def copy(self):
        f = Frame(self.fn, dict(self.env), self.bb, self.ret)
        f.visits = dict(self.visits)
        return f


class State:
    __slots__ = ("stack", "facts", "trace", "after_jump", "loops", "fresh")

    def __init__(self):
        self.stack = []
        self.facts = Facts()
        self.trace = []
        self.after_jump = False
        self.loops = {}     # loop id -> iterations started (None when left)
        self.fresh = 0

    def copy(self):
        s = State()
        s.stack = [f.copy() for f in self.stack]
        s.facts = self.facts.copy()
        s.trace = list(self.trace)
        s.after_jump = self.after_jump
        s.loops = dict(self.loops)
        s.fresh = self.fresh
        return s


IDENTITY_CALLS = ("::deref", "::to_string", "::to_owned", "::clone", "::as_str", "::borrow", "::as_ref",
                  "::into", "::from", "must_use", "::as_mut", "::deref_mut", "::to_vec")


class Walker:
    def __init__(self, prog):
        self.prog = prog
        self.evs = {}
        self.template_fns = self._template_fns()
        self.paths = 0
        self.generic = None      # (fn id, bb of the into_iter call)
        self._irrelevant = {}
        self.nonempty = set()
        self.used_assumptions = set()
        self.skipped_switches = set()
        self.loops_seen = {}

    # -- which generator functions are construct templates (reach label/jump without passing through
    #    the statement / expression dispatch)
    def _template_fns(self):
        direct = set()
        calls = {}
        for f in emit.generator_fns(self.prog):
            evs = emit.events(self.prog, f)
            self.evs[f.id] = evs
            for e in evs.values():
                if e.kind in ("label", "jump", "jump_if_false"):
                    direct.add(f.id)
                elif e.kind == "gen":
                    calls.setdefault(f.id, set()).add(e.callee.id)
        reach = set(direct)
        self.dispatch = set()
        for f in emit.generator_fns(self.prog):
            tr = (f.impl or {}).get("trait_ref") or ""
            if "Visitor<" in tr:
                self.dispatch.add(f.id)
        changed = True
        while changed:
            changed = False
            for f, cs in calls.items():
                if f not in reach and f not in self.dispatch and cs & reach:
                    reach.add(f)
                    changed = True
        self.calls = calls
        # leaf generators that (transitively) emit user code: expressions, statements, blocks
        user = set()
        for fid, evs in self.evs.items():
            if any(e.kind in ("EXPR", "BLOCK", "STMT") for e in evs.values()):
                user.add(fid)
        changed = True
        while changed:
            changed = False
            for f, cs in calls.items():
                if f not in user and cs & user:
                    user.add(f)
                    changed = True
        self.user_gens = user
        return reach

    def roots(self):
        called = set()
        for f in self.template_fns - self.dispatch:
            for c in self.calls.get(f, ()):
                if c in self.template_fns:
                    called.add(c)
        return [self.prog.fns[f] for f in sorted(self.template_fns - called)
                if self.prog.fns[f].name not in ("label", "jump", "jump_if_false")]

    def loops_of(self, root):
        """(fn id, bb) of the into_iter calls reachable by inlining from root."""
        out = []
        seen = set()
        st = [root.id]
        while st:
            fid = st.pop()
            if fid in seen:
                continue
            seen.add(fid)
            fn = self.prog.fns[fid]
            for b, t in fn.body.calls():
                cp = t.get("cpath") or ""
                if cp.endswith("IntoIterator::into_iter"):
                    out.append((fid, b))
                c = mir.callee_of(t)
                if c in self.template_fns or self._is_label_helper(self.prog.fns.get(c)):
                    st.append(c)
        return out

    def _is_label_helper(self, fn):
        if fn is None or fn.crate != "rusty_basic" or fn.kind != "fn" or "instruction_generator" not in fn.path:
            return False
        ty = fn.body.locals[0]["ty"]
        return ty in ("std::string::String", "&str", "&'static str")

    # -- relevance: switches whose arms cannot influence the label trace are walked through one arm
    def irrelevant_switches(self, fn):
        got = self._irrelevant.get(fn.id)
        if got is not None:
            return got
        body = fn.body
        evs = self.evs.get(fn.id, {})
        pdom = _postdom_sets(body)
        rel = set()          # relevant locals
        hot = set()          # blocks with an effect on the label trace

        def locals_of_operand(op):
            p = mir.op_place(op)
            if p is None:
                return []
            return [p[0]] + [e["i"] for e in p[1] if isinstance(e, dict) and "i" in e]

        for b, t in body.calls():
            e = evs.get(b)
            callee = self.prog.fns.get(mir.callee_of(t))
            cp = t.get("cpath") or ""
            name = cp.split("::")[-1]
            seed = False
            if e is not None and e.kind in ("label", "jump", "jump_if_false"):
                seed = True
            elif e is not None and e.kind == "gen" and callee.id in self.template_fns:
                seed = True
            elif e is None and self._is_label_helper(callee):
                seed = True
            elif name in ("into_iter", "iter", "next", "enumerate"):
                seed = True
            if seed:
                hot.add(b)
                for a in t["args"]:
                    rel.update(locals_of_operand(a))
        for b in range(body.nblocks):
            if body.term(b)["k"] == "return" and not body.is_cleanup(b):
                hot.add(b)
        rel.add(0)
        switches = [b for b in range(body.nblocks) if body.term(b)["k"] == "switch" and not body.is_cleanup(b)]
        arms = {}
        for sb in switches:
            stop = pdom.get(sb, {sb}) - {sb}
            arms[sb] = set()
            for tg in body.succ(sb):
                arms[sb] |= body.reachable(tg, avoid=stop)
        relevant_sw = set()
        changed = True
        while changed:
            changed = False
            # backward slice
            grew = True
            while grew:
                grew = False
                for b in range(body.nblocks):
                    blk = body.blocks[b]
                    for st_ in blk["s"]:
                        if st_["k"] != "assign" or st_["p"][0] not in rel:
                            continue
                        r = st_["r"]
                        ls = []
                        for key in ("o", "a", "b"):
                            if isinstance(r.get(key), dict):
                                ls += locals_of_operand(r[key])
                        if "p" in r:
                            ls.append(r["p"][0])
                        for o in r.get("ops", ()):
                            ls += locals_of_operand(o)
                        for l in ls:
                            if l not in rel:
                                rel.add(l)
                                grew = True
                    t = blk["t"]
                    if t["k"] == "call" and t.get("d") and t["d"][0] in rel:
                        for a in t["args"]:
                            for l in locals_of_operand(a):
                                if l not in rel:
                                    rel.add(l)
                                    grew = True
            for sb in switches:
                if sb in relevant_sw:
                    continue
                is_rel = False
                for b in arms[sb]:
                    if b in hot:
                        is_rel = True
                        break
                    blk = body.blocks[b]
                    if any(s_["k"] == "assign" and s_["p"][0] in rel for s_ in blk["s"]):
                        is_rel = True
                        break
                    t = blk["t"]
                    if t["k"] == "call" and t.get("d") and t["d"][0] in rel:
                        is_rel = True
                        break
                if is_rel:
                    relevant_sw.add(sb)
                    for l in locals_of_operand(body.term(sb)["o"]):
                        if l not in rel:
                            rel.add(l)
                    changed = True
        out = set(switches) - relevant_sw
        self._irrelevant[fn.id] = out
        return out

    # -- term evaluation
    def read_place(self, st, depth, place):
        fr = st.stack[depth]
        l, proj = place
        v = fr.env.get(l)
        if v is None:
            v = ("undef", fr.fn.name, l)
        return self.project(st, v, proj)

    def project(self, st, v, proj):
        for e in proj:
            if isinstance(e, tuple):
                e = dict(e)
            if e == "*":
                if v[0] == "refp":
                    v = self.read_place(st, v[1], (v[2], list(v[3])))
                elif v[0] == "ref":
                    v = v[1]
                else:
                    v = ("deref", v)
            elif isinstance(e, dict) and "f" in e:
                n = e.get("n", e["f"])
                if v[0] == "agg" and isinstance(n, int) and n < len(v[2]):
                    v = v[2][n]
                elif v[0] == "optsym":
                    v = v[2]
                else:
                    v = ("fld", v, "%s%s" % ((e.get("v") + ".") if e.get("v") else "", n))
            elif isinstance(e, dict) and "d" in e:
                pass
            elif isinstance(e, dict) and "i" in e:
                v = ("idx", v, self.read_place(st, len(st.stack) - 1, (e["i"], [])))
            else:
                v = ("proj", v, str(e))
        return v

    def operand(self, st, depth, op):
        p = mir.op_place(op)
        if p is not None:
            return self.read_place(st, depth, p)
        k = op.get("k") or {}
        if "int" in k and k.get("ty") not in ("bool",):
            return C(k["int"])
        s = k.get("s", "")
        if k.get("ty") == "bool" or s in ("true", "false"):
            return C(s == "true" or k.get("int") == 1)
        m = re.match(r'^"(.*)"$', s, re.S)
        if m:
            return ("s", m.group(1))
        if s.startswith('b"'):
            return ("bytes", s)
        if k.get("fn"):
            return ("fnitem", k.get("fnpath") or k["fn"])
        return ("k", s)

    def rvalue(self, st, depth, r):
        k = r["k"]
        if k == "use":
            return self.operand(st, depth, r["o"])
        if k in ("ref", "rawptr"):
            l, proj = r["p"]
            if proj and proj[-1] == "*":
                # reborrow: &*x  ==  x
                return self.read_place(st, depth, (l, proj[:-1]))
            return ("refp", depth, l, tuple(_freeze(e) for e in proj))
        if k == "copyderef":
            return self.read_place(st, depth, r["p"])
        if k == "cast":
            return self.operand(st, depth, r["o"])
        if k == "discr":
            v = self.read_place(st, depth, r["p"])
            if v[0] == "optsym":
                return ("discr_opt", v[1], v[3])
            nv = len(self.prog.variants(r.get("adt")) or ()) if r.get("adt") else 0
            return ("discr", v, nv)
        if k == "bin":
            a = self.operand(st, depth, r["a"])
            b = self.operand(st, depth, r["b"])
            op = r["op"]
            if op in ("Add", "AddWithOverflow", "AddUnchecked"):
                lb = lin(b)
                la = lin(a)
                if lb and lb[0] is None:
                    res = mk_add(a, lb[1])
                elif la and la[0] is None:
                    res = mk_add(b, la[1])
                else:
                    res = ("opq", "add", a, b)
                return ("agg", "tuple", (res, C(False))) if op == "AddWithOverflow" else res
            if op in ("Sub", "SubWithOverflow", "SubUnchecked"):
                lb = lin(b)
                res = mk_add(a, -lb[1]) if lb and lb[0] is None else ("opq", "sub", a, b)
                return ("agg", "tuple", (res, C(False))) if op == "SubWithOverflow" else res
            if op == "Lt":
                return mk_lt(a, b)
            if op == "Gt":
                return mk_lt(b, a)
            if op == "Le":
                return mk_not(mk_lt(b, a))
            if op == "Ge":
                return mk_not(mk_lt(a, b))
            if op == "Eq":
                return mk_eq(a, b)
            if op == "Ne":
                return mk_not(mk_eq(a, b))
            return ("opq", op, a, b)
        if k == "un":
            o = self.operand(st, depth, r["o"])
            if r["op"] == "Not":
                return mk_not(o)
            return ("opq", r["op"], o)
        if k == "agg":
            ops = tuple(self.operand(st, depth, o) for o in r["ops"])
            if r["a"] == "adt":
                name = r["adt"].split("::")[-1]
                if name == "Range" and len(ops) == 2:
                    return ("range", ops[0], ops[1])
                return ("agg", name + "::" + str(r.get("variant")), ops)
            return ("agg", r["a"], ops)
        return ("opq", k)

    def write_place(self, st, depth, place, v):
        l, proj = place
        fr = st.stack[depth]
        if not proj:
            fr.env[l] = v
            return
        if proj == ["*"]:
            tgt = fr.env.get(l)
            if tgt and tgt[0] == "refp":
                self.write_place(st, tgt[1], (tgt[2], list(tgt[3])), v)
                return
        st.fresh += 1
        fr.env[l] = ("havoc", st.fresh)

    # -- call models
    def model_call(self, st, depth, t, args):
        cp = t.get("cpath") or ""
        name = cp.split("::")[-1]
        a0 = args[0] if args else None
        if a0 is not None and a0[0] == "refp" and name not in ("next",):
            d0 = self.read_place(st, a0[1], (a0[2], list(a0[3])))
        else:
            d0 = a0
        if name == "len" and len(args) == 1:
            r = ("len", d0)
            if a0[0] == "refp":
                fn = st.stack[a0[1]].fn
                if (fn.name, fn.body.var_name(a0[2])) in self.nonempty:
                    self.used_assumptions.add((fn.name, fn.body.var_name(a0[2])))
                    st.facts.diff.append((None, r, -1))
            return r
        if name == "is_empty" and len(args) == 1:
            return mk_eq(("len", d0), C(0))
        if name in ("is_some", "is_none") and "Option" in cp:
            if d0[0] == "optsym":
                return d0[1] if name == "is_some" else mk_not(d0[1])
            return mk_eq(("discr", d0, 2), C(1 if name == "is_some" else 0))
        if cp.endswith("IntoIterator::into_iter") or name in ("iter", "into_iter"):
            start = C(0)
            gen = self.generic == (st.stack[depth].fn.id, st.stack[depth].bb)
            lid = (st.stack[depth].fn.id, st.stack[depth].bb)
            if d0[0] == "range":
                cur, end, src = d0[1], d0[2], None
            elif d0[0] in ("viter", "enum"):
                return d0
            else:
                cur, end, src = start, ("len", d0), d0
            if gen:
                st.fresh += 1
                cur = ("iv", st.fresh)
            st.loops[lid] = 0
            return ("viter", cur, end, src, lid, gen)
        if name == "enumerate" and d0 is not None and d0[0] == "viter":
            return ("enum", d0)
        if name == "next" and "Iterator" in cp and a0 is not None and a0[0] == "refp":
            it = self.read_place(st, a0[1], (a0[2], list(a0[3])))
            inner = it[1] if it[0] == "enum" else it
            if inner[0] == "viter":
                _k, cur, end, src, lid, gen = inner
                cond = mk_lt(cur, end)
                item = cur if src is None else ("item", src, cur)
                payload = ("agg", "tuple", (cur, item)) if it[0] == "enum" else item
                nxt = ("viter", mk_add(cur, 1), end, src, lid, gen)
                self.write_place(st, a0[1], (a0[2], list(a0[3])), ("enum", nxt) if it[0] == "enum" else nxt)
                return ("optsym", cond, payload, lid)
        if any(cp.endswith(s) or name == s.strip(":") for s in IDENTITY_CALLS) and len(args) == 1:
            return d0
        if name == "new_display" or name == "new_debug":
            return ("fmtarg", d0)
        if cp.startswith("std::fmt::Arguments") and name == "new" and len(args) == 2:
            tmpl = d0
            arr = args[1]
            if arr[0] == "refp":
                arr = self.read_place(st, arr[1], (arr[2], list(arr[3])))
            if tmpl[0] == "bytes" and arr[0] == "agg":
                items = parse_fmt_template(tmpl[1])
                if items is not None:
                    out = []
                    ai = 0
                    for itm in items:
                        if itm[0] == "lit":
                            out.append(itm)
                        else:
                            a = arr[2][ai] if ai < len(arr[2]) else ("opq", "arg")
                            ai += 1
                            out.append(("arg", a[1] if a[0] == "fmtarg" else a))
                    return ("fmtargs", tuple(out))
        if cp.startswith("std::fmt::Arguments") and name in ("from_str", "new_const") and args:
            if d0[0] == "s":
                return ("fmtargs", (("lit", d0[1]),))
            if d0[0] == "agg" and all(x[0] == "s" for x in d0[2]):
                return ("fmtargs", tuple(("lit", x[1]) for x in d0[2]))
        if cp == "std::fmt::format" and args and args[0][0] == "fmtargs":
            return render(args[0][1])
        return None

    # -- the walk
    def walk(self, root, generic=None, on_path=None):
        self.generic = generic
        st = State()
        env = {}
        for i in range(1, root.argc + 1):
            env[i] = ("p", "%s" % (root.body.var_name(i) or "arg%d" % i))
        st.stack.append(Frame(root, env))
        work = [st]
        n = 0
        while work:
            st = work.pop()
            done = self.run(st, work)
            if done:
                n += 1
                self.paths += 1
                if self.paths > MAX_PATHS:
                    raise Budget("more than %d emission paths" % MAX_PATHS)
                on_path(st)
        return n

    def run(self, st, work):
        """Advance st until it returns from the root (True) or dies (False); forks go to work."""
        while True:
            depth = len(st.stack) - 1
            fr = st.stack[depth]
            b = fr.bb
            v = fr.visits.get(b, 0)
            if v >= UNROLL + 1:
                return False
            fr.visits[b] = v + 1
            blk = fr.fn.body.blocks[b]
            for s in blk["s"]:
                if s["k"] == "assign":
                    self.write_place(st, depth, s["p"], self.rvalue(st, depth, s["r"]))
            t = blk["t"]
            k = t["k"]
            if k == "goto":
                fr.bb = t["t"]
            elif k in ("drop", "assert"):
                fr.bb = t["t"]
            elif k == "return":
                if depth == 0:
                    return True
                rv = fr.env.get(0, ("unit",))
                if rv[0] == "refp" and rv[1] == depth:
                    rv = self.read_place(st, depth, (rv[2], list(rv[3])))
                    rv = ("ref", rv)
                dest, target = fr.ret
                st.stack.pop()
                self.write_place(st, depth - 1, dest, rv)
                st.stack[depth - 1].bb = target
            elif k == "switch":
                d = self.operand(st, depth, t["o"])
                if d[0] != "c" and b in self.irrelevant_switches(fr.fn):
                    # no arm of this switch can influence the label trace: walk one arm, learn nothing
                    self.skipped_switches.add((fr.fn.name, t.get("ln")))
                    live = _postdom_sets(fr.fn.body)
                    fr.bb = [x for x in fr.fn.body.succ(b) if x in live][0]
                    continue
                outs = [o for o in self.branches(st, d, t, fr.fn.body)
                        if not (o[2] is not None and o[2][1] and (st.loops.get(o[2][0]) or 0) >= UNROLL)]
                if not outs:
                    return False
                for facts, target, tag in outs[1:]:
                    s2 = st.copy()
                    s2.facts = facts
                    s2.stack[depth].bb = target
                    self.tag_loop(s2, tag)
                    work.append(s2)
                st.facts, fr.bb, tag = outs[0]
                self.tag_loop(st, tag)
            elif k == "call":
                if t.get("t") is None:
                    return False
                if not self.call(st, depth, b, t):
                    return False
            else:
                return False

    @staticmethod
    def tag_loop(st, tag):
        if tag is not None:
            lid, some = tag
            st.loops[lid] = (st.loops.get(lid) or 0) + 1 if some else -1

    def branches(self, st, d, t, body):
        outs = []
        targets = list(t["ts"])
        eb = body.blocks[t["else"]]
        has_else = not (eb["t"]["k"] == "unreachable" and not eb["s"])
        if d[0] == "c":
            val = int(d[1]) if not isinstance(d[1], bool) else (1 if d[1] else 0)
            for v, tg in targets:
                if v == val:
                    return [(st.facts, tg, None)]
            return [(st.facts, t["else"], None)] if has_else else []
        is_bool = t.get("ty") == "bool"
        for v, tg in targets:
            f = st.facts.copy()
            if d[0] == "discr_opt":
                ok = v in (0, 1) and f.assume_bool(d[1], v == 1)
            elif is_bool:
                ok = f.assume_bool(d, v != 0)
            else:
                ok = f.assume_cat(d, value=v)
            if ok:
                outs.append((f, tg, (d[2], v == 1) if d[0] == "discr_opt" else None))
        if has_else:
            f = st.facts.copy()
            vals = [v for v, _ in targets]
            if d[0] == "discr_opt":
                ok = len(vals) == 1 and f.assume_bool(d[1], vals[0] != 1)
            elif is_bool:
                ok = f.assume_bool(d, True) if vals == [0] else f.assume_bool(d, False)
            elif d[0] == "discr" and d[2] == 2 and len(vals) == 1:
                ok = f.assume_cat(d, value=1 - vals[0])
            else:
                ok = f.assume_cat(d, not_values=vals)
            if ok:
                outs.append((f, t["else"], (d[2], vals[0] != 1) if d[0] == "discr_opt" else None))
        return outs

    def call(self, st, depth, b, t):
        fr = st.stack[depth]
        args = [self.operand(st, depth, a) for a in t["args"]]
        ev = self.evs.get(fr.fn.id, {}).get(b)
        callee = self.prog.fns.get(mir.callee_of(t))
        if ev is not None and ev.kind in ("label", "jump", "jump_if_false"):
            name = args[1] if len(args) > 1 else ("opq", "?")
            if name[0] == "refp":
                name = self.read_place(st, name[1], (name[2], list(name[3])))
            pos = args[2] if len(args) > 2 else ("opq", "?")
            iters = dict(st.loops)
            st.trace.append(Item(ev.kind, name, pos, fr.fn, t.get("ln"), st.after_jump, iters))
            st.after_jump = ev.kind == "jump"
            self.write_place(st, depth, t["d"], ("unit",))
            fr.bb = t["t"]
            return True
        if ev is not None and ev.kind == "mark":
            # a resume point: falls through, emits nothing (kept in the trace for the rules about RESUME)
            st.trace.append(Item("mark", ("s", "mark"), ("unit",), fr.fn, t.get("ln"), st.after_jump, dict(st.loops)))
            fr.bb = t["t"]
            return True
        inline = None
        if ev is not None and ev.kind == "gen" and callee.id in self.template_fns:
            inline = callee
        elif ev is None and self._is_label_helper(callee):
            inline = callee
        if inline is not None:
            if len(st.stack) > 12:
                raise Budget("inlining depth")
            env = {i + 1: a for i, a in enumerate(args)}
            nf = Frame(inline, env, 0, (t["d"], t["t"]))
            st.stack.append(nf)
            return True
        if ev is not None:
            # an opaque emission (push, expression, statement block, leaf generator)
            st.trace.append(Item("emit", ("s", ev.show()), ("unit",), fr.fn, t.get("ln"), st.after_jump,
                                 dict(st.loops),
                                 "USER" if ev.kind == "gen" and ev.callee.id in self.user_gens else ev.kind))
            st.after_jump = False
            self.write_place(st, depth, t["d"], ("unit",))
            fr.bb = t["t"]
            return True
        r = self.model_call(st, depth, t, args)
        if r is None:
            cp = t.get("cpath") or mir.callee_of(t) or "?"
            r = ("call", cp, tuple(a if a[0] != "refp" else ("ref", self.read_place(st, a[1], (a[2], list(a[3]))))
                                   for a in args))
        self.write_place(st, depth, t["d"], r)
        fr.bb = t["t"]
        return True


_PD = {}


def _postdom_sets(body):
    """b -> set of blocks on every path from b to a return; diverging blocks (panics) are ignored."""
    if id(body) in _PD:
        return _PD[id(body)]
    r = _PD[id(body)] = _postdom_sets0(body)
    return r


def _postdom_sets0(body):
    nodes = [b for b in sorted(body.reachable()) if not body.is_cleanup(b)]
    rets = {b for b in nodes if body.term(b)["k"] == "return"}
    live = set(rets)
    changed = True
    while changed:
        changed = False
        for b in nodes:
            if b not in live and any(x in live for x in body.succ(b)):
                live.add(b)
                changed = True
    allb = set(live)
    pd = {b: ({b} if b in rets else set(allb)) for b in live}
    changed = True
    while changed:
        changed = False
        for b in live:
            if b in rets:
                continue
            ss = [x for x in body.succ(b) if x in live]
            new = set.intersection(*[pd[x] for x in ss]) | {b} if ss else {b}
            if new != pd[b]:
                pd[b] = new
                changed = True
    return pd


def _freeze(e):
    if isinstance(e, dict):
        return tuple(sorted((k, v) for k, v in e.items() if k in ("f", "n", "v", "d", "i", "ci")))
    return e


def reachable_items(trace, seeds=()):
    """Indices of the trace items reachable from the first one in the emitted code: fall-through
    except after an unconditional jump, plus jump / jump_if_false -> the label items they name."""
    labels = {}
    for i, it in enumerate(trace):
        if it.kind == "label":
            labels.setdefault(it.key(), []).append(i)
    seen = set()
    work = ([0] if trace else []) + list(seeds)
    while work:
        i = work.pop()
        if i in seen or i >= len(trace):
            continue
        seen.add(i)
        it = trace[i]
        if it.kind in ("jump", "jump_if_false"):
            work.extend(labels.get(it.key(), ()))
        if it.kind != "jump":
            work.append(i + 1)
    return seen
